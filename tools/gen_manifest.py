#!/usr/bin/env python3
"""Regenerates /verif/MANIFEST.json from the table below (kept in one place so it stays valid)."""
import json, os
HERE = os.path.dirname(os.path.dirname(os.path.abspath(__file__)))

# id -> (technique, level text, level note, design section)
CHECKS = {
 "C20": ("property-based testing: three generated sub-checks (payload identity through single layers and stacks; strict contract-checking / tower Buffer / ConcurrencyLimit inner services with generated readiness scripts; metamorphic listener runs with generated panicking subsets)",
         "Generated search over the 13 middleware and 6 stacks from the composition guide: transparency by serial/payload identity, Tower readiness by a per-instance readiness flag and tower's own readiness panics, listeners by comparing runs with none / quiet / panicking listeners. Exploration.",
         "Stacks are a fixed menu; hedge's AllAttemptsFailed is accepted as its pass-through variant; through Buffer a readiness error loses its type by Buffer's design.", "5/C20"),
 "C10": ("model-based property testing: generated request/advance histories compared with a reference cache kept as a set of worlds; every inner response carries a fresh serial",
         "Generated search over policy, size, TTL, private/cloned/shared stores and histories up to 80/500 operations with overlapping misses and reads exactly at the TTL; each observation (inner called or not, value returned) prunes the worlds, a violation needs all worlds to disagree. Exploration.",
         "Worlds cover LFU ties, expired-entry purging, exact-TTL reads and whether LFU counts updates; cases whose world set exceeds 4000 are cut short (classified, not violations).", "5/C10"),
 "C11": ("property-based testing: generated concurrent histories with leader/waiter cancellation and panics in the deterministic simulator; invariants over the event log",
         "Generated search over arrivals on 3 keys/3 clones, leader scripts incl. panic and never, cancellations of leaders and waiters and poll orders; per-key single flight, shared serial, prompt LeaderCancelled, key freed, nobody pending at the horizon. Exploration.",
         "Busy-waking waiters are polled at most 3 fruitless times per instant.", "5/C11"),
 "C16": ("property-based testing: generated outcome scripts x reconnect configurations under a virtual clock; reference reading of the script",
         "Generated search over max_attempts (incl. 0 and unlimited), policies, retry flag, predicate and sequential requests; bounded calls, retries only after accepted errors, policy delay, first success / last error identity, published state. Exploration.",
         "ReconnectError is not exported: payload identity through Display; either delay indexing convention accepted.", "5/C16"),
 "C17": ("property-based testing with exhaustive enumeration of the finite part: every generated payload case runs the complete strategy x predicate x outcome grid against a pure reference function",
         "84-cell grid enumerated completely per case, payloads (request, value, error codes) generated so every value is distinguishable; counters prove the strategy/backup is not invoked for successes and refused errors. Exploration with an exhaustively enumerated configuration grid.",
         "One request per cell.", "5/C17"),
 "C18": ("model-based property testing: generated check-result scripts folded through the statement's threshold machine, compared with the published statuses; generated selection bursts",
         "Generated search over thresholds, intervals, timeouts, 1-5 resources, selection strategies and scripts with unknown and timed-out checks; the model is folded over the checks the scripted checker actually served. Exploration.",
         "Statuses compared only when no check is in progress; custom selectors may decline.", "5/C18"),
 "C19": ("property-based testing: metamorphic relation between equally seeded services plus bound/identity predicates, under a virtual clock",
         "Generated search over seeds, rate extremes, latency ranges incl. equal and reversed bounds and request bursts; three equally seeded services must produce identical decision/latency sequences; injected errors skip inner; latencies within bounds. Exploration.",
         "Same first-poll order on the compared services; injection events observed through the layer's listener and cross-checked against inner start instants.", "5/C19"),
 "C05": ("property-based testing: generated outcome scripts x retry configurations in the simulator; reference reading of the script plus logged budget/backoff decisions",
         "Generated search over max_attempts, backoff policies, predicates, budgets and 1-4 concurrent requests sharing a budget; the oracle recomputes from the script what the layer may do and checks attempts, stop reason, result identity, backoff gaps and budget grants. Exploration.",
         "Budget and interval decisions are observed through logging wrappers around the real implementations; longer waits than the backoff are allowed.", "5/C05"),
 "C06": ("property-based testing: generated deadlines/latencies around the boundary under a virtual clock; exact-instant oracle with tie acceptance",
         "Generated search over timeouts, latencies at deadline-1/deadline/deadline+1, both cancellation modes and concurrent calls; checks the exact resolution instant, payload identity and the fate of the inner future. Exploration.",
         "latency == timeout is a tie (either outcome); tokio select! order is not generated.", "5/C06"),
 "C08": ("property-based testing over generated schedules: baton scheduler owning every instrumented atomic step of the real budget code; conservation invariant after each step and brute-force linearizability at quiescence",
         "Generated search over budget parameters, 2-4 threads of operations and the interleaving of their atomic steps (preemption-bounded and random schedules). Exploration of sequentially consistent interleavings.",
         "Needs the verif-hooks feature (instrumented atomics); weak-memory reorderings of Relaxed operations are not explored; AIMD linearizability is checked on the balance with a free ceiling.", "5/C08"),
 "C12": ("property-based testing: generated per-attempt latency/outcome vectors and delay configurations under a virtual clock; constraint oracle over start instants and the result",
         "Generated search over max attempts, fixed/zero/per-attempt delays and outcome vectors with failures placed around hedge starts; constraints (not one schedule) on starts, the winning response and all-attempts-failed. Exploration.",
         "The payload of AllAttemptsFailed and late hedge starts are not constrained by the statement.", "5/C12"),
 "C13": ("property-based testing: generated schedules of atomic steps (limit algorithms) and generated simulator histories (service); step invariant and ground-truth comparison",
         "Two generated engines: limit within [min,max] after every atomic step of concurrent feedback for AIMD controller/AIMD/Vegas; in_flight() equal to the scripted service's own count at every readiness check and quiescent instant, readiness refused only at the limit, also after drops and panics. Exploration.",
         "Needs verif-hooks for the schedule engine; SC interleavings only; inner service always ready.", "5/C13"),
 "C14": ("property-based testing: generated (configuration, attempt) pairs against an independent closed-form reference, plus a generated end-to-end outage in virtual time",
         "Generated search over initial/multiplier/cap/factor and attempts up to usize::MAX for both backoff types and all ReconnectPolicy constructors: totality, value, cap, monotonicity, jitter range; end to end a reconnect loop runs for hundreds/thousands of attempts of virtual time. Exploration.",
         "1e-9 relative tolerance; unrepresentable uncapped products only need to be total and monotone.", "5/C14"),
 "C02": ("property-based testing: generated concurrent arrival histories under a virtual clock; existential window-partition witness (dynamic program) / span predicate over admission timestamps",
         "Generated search over window type, limit, period (incl. float-unlucky values), timeout and bursts/gaps placed on window boundaries; the oracle only looks at when inner calls started and accepts every placement of windows the statement allows. Exploration.",
         "Admissions exactly at a cut instant may belong to either window; whole-millisecond instants.", "5/C02"),
 "C03": ("property-based testing: generated concurrent histories in the deterministic simulator; invariant over the event log ordered against observed state transitions",
         "Generated search over breaker configs, caller groups on clones, poll orders, cancellations and force_open; checks that no inner entry follows an observed ->Open transition before the wait has elapsed, and that callers polled while open are answered at once (error or their own fallback value). Exploration.",
         "State observation = transition listener events cross-checked with state_sync(); k+0.5 ms thresholds avoid ties.", "5/C03"),
 "C04": ("model-based property testing: generated sequential histories compared step by step with a reference model (set of worlds) written from the statement",
         "Generated search over configurations and histories up to 60/400 operations; after every operation all four state views must agree with the model and the inner service must be entered iff the model admits. Exploration.",
         "Worlds cover what the statement leaves open (min-calls reading, force_open while open, force_closed while closed); k+0.5 ms durations avoid ties.", "5/C04"),
 "C09": ("property-based testing: generated concurrent histories in the deterministic simulator; counting invariant per observed half-open period",
         "Generated search with bursts of identical callers arriving while trials are in flight; trial entries (not counting abandoned ones) per half-open period never exceed the permitted number and surplus callers are rejected at once. Exploration.",
         "A trial abandoned by drop/panic is not counted (it can never be recorded); single-threaded poll orders.", "5/C09"),
 "C15": ("property-based testing: generated arrival histories under a virtual clock; validity predicates over arrival/admission/rejection instants and the inner call log",
         "Generated search (same histories as C02) checking decision-by-deadline, exactly-once / never inner entry, immediate admission when a placement-independent sufficient condition for spare capacity holds, and the two-idle-periods rule. Exploration.",
         "'Idle' = no event at all for two periods; 'spare capacity' via a sufficient condition valid for every window placement.", "5/C15"),
 "C01": ("property-based testing: generated concurrent histories on a hand-driven executor under a virtual clock; invariant oracle over the event history",
         "Generated search (proptest, shrinking, replay) over arrival/cancellation/poll-order histories; in-flight <= max checked at every inner entry and quiescent instant plus a final max+1 probe. Exploration, not proof: it reports how many histories were non-trivial.",
         "Trusts tokio's semaphore/timer and the harness executor; explores single-threaded poll orders and same-instant ties, not preemption inside a poll.", "5/C01"),
 "C07": ("property-based testing: generated fault/cancellation histories followed by a capacity probe; validity predicates (work conservation, exact rejection instant, no inner entry for rejected/cancelled)",
         "Generated search over histories with panics, never-completing calls, cancellations while queued/running and wait timeouts; probe burst after every history. Exploration.",
         "Arrival = creation and first poll in the same instant; ties at one instant accept either outcome.", "5/C07"),
}
PENDING = {}  # id -> reason (filled below for everything not in CHECKS)
ALL = ["C%02d" % i for i in range(1, 21)]
for pid in ALL:
    if pid not in CHECKS:
        PENDING[pid] = "check under construction in this build round (see DESIGN.md section 5); not claimed until its harness module exists and is silent on the unchanged tree"

manifest = {
 "version": 1,
 "setup_cmd": "cd /verif/harness && CARGO_NET_OFFLINE=true cargo build --release --offline && ./target/release/vcheck selftest",
 "hooks": {
   "guard": "verif-hooks (cargo feature of tower-resilience-core, forwarded by tower-resilience-retry, tower-resilience-adaptive and tower-resilience-coalesce)",
   "enable": "/verif/harness/Cargo.toml depends on /repo/crates/* by path with features = [\"verif-hooks\"] on core, retry, adaptive and coalesce; every ./check rebuilds them from /repo's working tree",
   "baseline_off_cmd": "cd /repo && cargo nextest run --workspace --no-fail-fast --tool-config-file pb:/w/lib/nextest.toml --profile pb --test-threads 8 --offline",
   "source_commits": ["8e75cc7", "8a0183c", "e4ce1f1", "f37cb8b"],
   "add_only": True,
 },
 "engines": [
   {"name": "vcheck", "path": "/verif/harness", "serves_properties": sorted(CHECKS),
    "kind_free_text": "Rust binary: proptest 1.11 generators driven from TestRunner with a fixed seed, hand-written deterministic executor on an interposed virtual clock (clock_gettime), scripted inner services, explicit oracles, shrinking to JSON replay files"},
 ],
 "checks": [],
 "not_applicable": [{"property_id": k, "reason": v} for k, v in sorted(PENDING.items())],
 "notes": "Every check: ./check <ID> --tier quick|thorough rebuilds the harness against /repo's working tree and runs it; VERIF_SEED selects the generator seed; exit 2 = harness problem/inconclusive (never a violation).",
}
for pid in sorted(CHECKS):
    tech, text, note, ref = CHECKS[pid]
    manifest["checks"].append({
        "property_id": pid,
        "quick_cmd": f"./check {pid} --tier quick",
        "thorough_cmd": f"./check {pid} --tier thorough",
        "evidence_file": f"/verif/evidence/{pid}.json",
        "replay_cmd_template": f"./check {pid} --replay {{path}}",
        "engine": "vcheck",
        "level_claimed": {"category": "exploration", "text": text, "design_ref": "DESIGN.md section " + ref},
        "level_note": note,
        "technique": tech,
    })
json.dump(manifest, open(os.path.join(HERE, "MANIFEST.json"), "w"), indent=1)
print("wrote MANIFEST.json with", len(manifest["checks"]), "checks,", len(manifest["not_applicable"]), "not_applicable")
