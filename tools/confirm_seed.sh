#!/bin/bash
# tools/confirm_seed.sh <ID> [worktree]: re-confirms an independently written breaking change in its scratch
# worktree: patch applies, suite green with it, demonstration red with / green without. Prints a summary.
ID="$1"; WT="${2:-/tmp/seed/$ID}"
export CARGO_TARGET_DIR=/tmp/seed/target CARGO_NET_OFFLINE=true
cd "$WT" || exit 2
git checkout -q -- . ; git clean -fdq crates; rm -f tests/seed_demo.rs
# the target directory is shared between worktrees and cargo judges freshness by mtime relative to
# the package root: without this, unit-test binaries of crates this change does not touch could be
# leftovers built from another worktree's (changed) sources
find crates src tests -name '*.rs' -exec touch {} + 2>/dev/null
git apply --check seed/patch.diff || { echo "$ID: patch does not apply"; exit 1; }
git apply seed/patch.diff
suite=$(cargo nextest run --workspace --no-fail-fast --tool-config-file pb:/w/lib/nextest.toml --profile pb --test-threads 8 --offline 2>&1 | grep -E "Summary|error(\[|:)" | head -3)
cp seed/demo.rs tests/seed_demo.rs
with=$(cargo test --test seed_demo --offline 2>&1 | grep -E "^test result|error(\[|:)" | head -2)
git checkout -q -- . ; git clean -fdq crates
without=$(cargo test --test seed_demo --offline 2>&1 | grep -E "^test result|error(\[|:)" | head -2)
rm -f tests/seed_demo.rs
echo "$ID suite_with_change: $suite"
echo "$ID demo_with_change: $with"
echo "$ID demo_without_change: $without"
