#!/bin/bash
# tools/seed_matrix.sh [seed-dir...]: applies each seeded change to /repo in turn and runs ALL quick checks,
# recording which checks raise a violation. Output: /verif/seeded/MATRIX.md (rewritten).
cd /verif
OUT=seeded/MATRIX.md
SEEDS="${@:-$(ls -d seeded/C* | sort)}"
echo "# Which quick checks catch which seeded change" > $OUT
echo "" >> $OUT
echo "One row per independently written breaking change (applied alone to /repo, all 20 quick checks run, change reverted). V = VIOLATION reported, . = silent, ? = exit 2." >> $OUT
echo "" >> $OUT
echo "| seed | $(seq -w 1 20 | sed 's/^/C/' | tr '\n' '|' | sed 's/|/ | /g')" >> $OUT
echo "|---|$(seq 1 20 | sed 's/.*/---/' | tr '\n' '|')" >> $OUT
for d in $SEEDS; do
  name=$(basename $d)
  P=$d/patch.diff
  [ -f $d/patch-rebased-on-9d3785a.diff ] && P=$d/patch-rebased-on-9d3785a.diff
  if ! git -C /repo apply --check $PWD/$P 2>/dev/null; then echo "| $name | (patch does not apply to the current tree) |" >> $OUT; continue; fi
  git -C /repo apply $PWD/$P
  (cd harness && CARGO_NET_OFFLINE=true cargo build --release --offline >/dev/null 2>&1)
  row="| $name |"
  for i in $(seq -w 1 20); do
    timeout 600 ./harness/target/release/vcheck C$i --tier quick --verif-dir /tmp/matrix_scratch >/dev/null 2>&1; code=$?
    case $code in 0) c=".";; 1) c="V";; *) c="?";; esac
    row="$row $c |"
  done
  echo "$row" >> $OUT
  git -C /repo checkout -- .
done
(cd harness && CARGO_NET_OFFLINE=true cargo build --release --offline >/dev/null 2>&1)
rm -rf /tmp/matrix_scratch
echo done
