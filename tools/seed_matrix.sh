#!/bin/bash
# tools/seed_matrix.sh [seed-dir...]: applies each seeded change, alone, to a scratch worktree of /repo and runs the
# quick checks of every property anchored in a crate the change touches (plus C20, which covers all middleware),
# recording which checks raise a violation. Output: /verif/seeded/MATRIX.md (rewritten).
# Works on a scratch copy (/tmp/mx: worktree of /repo HEAD + copy of the harness pointed at it), so neither /repo nor
# /verif/harness is touched while it runs; the scratch copy is removed at the end. The regression tier is NOT used
# (scratch --verif-dir without regress/): a V means the generated search found the change by itself.
set -u
cd /verif
OUT="${MATRIX_OUT:-seeded/MATRIX.md}"
MX="${MATRIX_SCRATCH:-/tmp/mx}"
SEEDS="${@:-$(ls -d seeded/C* | sort)}"
rm -rf $MX; mkdir -p $MX
git -C /repo worktree add -q --detach $MX/repo HEAD || exit 2
rsync -a --exclude target --exclude fuzz /verif/harness $MX/
sed -i "s#/repo/crates#$MX/repo/crates#g" $MX/harness/Cargo.toml
export CARGO_NET_OFFLINE=true CARGO_TARGET_DIR=$MX/target
props_for() { # crates touched by the patch -> property ids
  local p="$1" out=""
  grep -q "tower-resilience-bulkhead/" $p && out="$out C01 C07"
  grep -q "tower-resilience-ratelimiter/" $p && out="$out C02 C15"
  grep -q "tower-resilience-circuitbreaker/" $p && out="$out C03 C04 C09"
  grep -q "tower-resilience-retry/" $p && out="$out C05 C08 C14 C16"
  grep -q "tower-resilience-timelimiter/" $p && out="$out C06"
  grep -q "tower-resilience-cache/" $p && out="$out C10"
  grep -q "tower-resilience-coalesce/" $p && out="$out C11"
  grep -q "tower-resilience-hedge/" $p && out="$out C12"
  grep -q "tower-resilience-adaptive/" $p && out="$out C13"
  grep -q "tower-resilience-reconnect/" $p && out="$out C16 C14"
  grep -q "tower-resilience-fallback/" $p && out="$out C17"
  grep -q "tower-resilience-healthcheck/" $p && out="$out C18"
  grep -q "tower-resilience-chaos/" $p && out="$out C19"
  grep -q "tower-resilience-core/" $p && out="$out C04 C05 C08 C13 C14"
  grep -q "tower-resilience-healthcheck/" $p || out="$out C20"
  echo $out | tr ' ' '\n' | sort -u | tr '\n' ' '
}
{
echo "# Which quick checks catch which seeded change"
echo ""
echo "One row per independently written breaking change (applied alone to a scratch worktree of /repo HEAD; the quick"
echo "checks of the properties anchored in the crates it touches, plus C20, are run without the regression tier; the"
echo "change is reverted). V = VIOLATION reported (cases until found), . = silent, ? = exit 2, blank = not run (other crate)."
echo ""
echo "| seed | $(seq -w 1 20 | sed 's/^/C/' | tr '\n' '|' | sed 's/|/ | /g')"
echo "|---|$(seq 1 20 | sed 's/.*/---/' | tr '\n' '|')"
} > $OUT
for d in $SEEDS; do
  name=$(basename $d)
  # the change as written, or a version of it rebased onto later fix commits (same change, moved context)
  P=""
  for cand in /verif/$d/patch.diff /verif/$d/patch-rebased-on-*.diff; do
    [ -f "$cand" ] && git -C $MX/repo apply --check "$cand" 2>/dev/null && { P="$cand"; break; }
  done
  if [ -z "$P" ]; then echo "| $name | (patch does not apply to the current tree) |" >> $OUT; continue; fi
  git -C $MX/repo apply $P
  todo=$(props_for $P)
  if ! (cd $MX/harness && cargo build --release --offline >/dev/null 2>&1); then
    echo "| $name | (harness does not build against this change) |" >> $OUT
    git -C $MX/repo checkout -- . ; git -C $MX/repo clean -fdq crates; continue
  fi
  row="| $name |"
  for i in $(seq -w 1 20); do
    if echo " $todo " | grep -q " C$i "; then
      out=$(timeout 900 $MX/target/release/vcheck C$i --tier quick --verif-dir $MX/scratch 2>&1); code=$?
      n=$(echo "$out" | grep -oE "quick: [0-9]+ cases" | grep -oE "[0-9]+" | head -1)
      case $code in 0) c=".";; 1) c="V($n)";; *) c="?";; esac
    else c=" "; fi
    row="$row $c |"
  done
  echo "$row" >> $OUT
  git -C $MX/repo checkout -- . ; git -C $MX/repo clean -fdq crates
done
git -C /repo worktree remove --force $MX/repo; git -C /repo worktree prune
rm -rf $MX
echo done
