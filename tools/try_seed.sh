#!/bin/bash
# tools/try_seed.sh <patch.diff> <ID...>: applies a breaking change to /repo, runs the quick checks, reverts.
P="$1"; shift
cd /repo && git apply --check "$P" || { echo "patch does not apply"; exit 2; }
git apply "$P"
for id in "$@"; do
  out=$(cd /verif && ./check $id --tier quick 2>&1); code=$?
  echo "== $id exit=$code"; echo "$out" | grep -E "VIOLATION|violation:|regression case|HARNESS|quick:" | cut -c1-330
done
git -C /repo checkout -- . ; git -C /repo clean -fdq crates; git -C /repo status --short | head -3
# evidence written while the change was applied does not describe the unchanged tree: restore it
git -C /verif checkout -- evidence 2>/dev/null
(cd /verif/harness && cargo build --release --offline >/dev/null 2>&1)
