#!/usr/bin/env python3
"""tools/seeding/gen_prompts.py <round> <outdir>: writes <outdir>/CNN.prompt.txt for every property.

The prompt contains ONLY the property's title/statement/quantifier text (never anything else from /verif)
plus one-line descriptions of the changes earlier rounds already produced for that property (so that
the next independent author does something different). Used with scratch worktrees:
  git -C /repo worktree add --detach <outdir>/CNN HEAD; mkdir <outdir>/CNN/seed
"""
import json, sys, os, glob, re
rnd, out = int(sys.argv[1]), sys.argv[2]
here = os.path.dirname(os.path.abspath(__file__))
tmpl = open(os.path.join(here, "prompt.tmpl")).read()
props = [json.loads(l) for l in open("/verif/properties.jsonl")]
os.makedirs(out, exist_ok=True)
for p in props:
    pid = p["id"]
    text = f'{pid}: {p["title"]}\n\nStatement: {p["statement"]}\n\nQuantified over: {p["quantifier"]["text"]}'
    earlier = []
    for d in sorted(glob.glob(f"/verif/seeded/{pid}*")):
        m = os.path.join(d, "meta.json")
        if not os.path.exists(m):
            continue
        j = json.load(open(m))
        change = j.get("change")
        if not change:
            # first lines of the patch: files touched
            files = re.findall(r"^diff --git a/(\S+)", open(os.path.join(d, "patch.diff")).read(), re.M)
            change = ", ".join(sorted(set(files)))
        needs = j.get("needs_to_manifest") or j.get("what_it_needs") or ""
        earlier.append((change, needs))
    if earlier:
        text += f"\n\nNOTE: {len(earlier)} earlier contributors already produced changes for this property, so do something DIFFERENT from all of them (a different clause of the statement, a different code site or a different mechanism); do not repeat them:\n"
        for k, (c, n) in enumerate(earlier, 1):
            text += f"  earlier change {k}: {c}\n    it needed: {n}\n"
        text += "Look for a clause of the statement or an item of the 'quantified over' list that none of them touched; changes spanning two crates or a crate and tower-resilience-core are welcome if that is what it takes. Do NOT use `git stash` (the stash is shared between worktrees); to test without your change use `git diff > /tmp/x.diff; git checkout -- crates; ...; git apply /tmp/x.diff` with a file name of your own inside your worktree.\n"
    d = f"{out}/{pid}"
    open(f"{out}/{pid}.prompt.txt", "w").write(tmpl.replace("__DIR__", d).replace("__PROP__", text))
print("wrote", len(props), "prompts to", out)
