#!/bin/bash
# tools/run_all.sh [tier] [seed...] : runs every registered check, prints one line per check
TIER="${1:-quick}"; shift || true
SEEDS="${@:-0}"
cd "$(dirname "$0")/.."
(cd harness && CARGO_NET_OFFLINE=true cargo build --release --offline >/dev/null 2>&1) || { echo "build failed"; exit 2; }
rc=0
for seed in $SEEDS; do
  for i in $(seq -w 1 20); do
    id="C$i"
    out=$(VERIF_SEED=$seed ./harness/target/release/vcheck $id --tier $TIER --verif-dir "$PWD" 2>&1); code=$?
    last=$(echo "$out" | grep -E "^$id (quick|thorough):" | cut -c1-110)
    if [ $code -ne 0 ]; then rc=1; echo "seed=$seed $id EXIT=$code"; echo "$out" | grep -E "VIOLATION|violation:|HARNESS|INCONCLUSIVE" | cut -c1-300; else echo "seed=$seed ok $last"; fi
  done
done
exit $rc
