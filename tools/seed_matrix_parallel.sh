#!/bin/bash
# tools/seed_matrix_parallel.sh [workers]: runs tools/seed_matrix.sh over all seeded changes with N workers
# (each with its own scratch copy under /tmp/mxK) and merges the parts into seeded/MATRIX.md.
N="${1:-3}"
cd /verif
ls -d seeded/C* | sort > /tmp/mx_all.txt
rm -f /tmp/mx_part.*; split -n l/$N -d /tmp/mx_all.txt /tmp/mx_part.
k=0; pids=""
for f in /tmp/mx_part.*; do
  MATRIX_OUT=/tmp/MATRIX.part$k.md MATRIX_SCRATCH=/tmp/mx$k tools/seed_matrix.sh $(cat $f) > /tmp/mx$k.log 2>&1 &
  pids="$pids $!"; k=$((k+1))
done
wait $pids
{ head -8 /tmp/MATRIX.part0.md; for i in $(seq 0 $((k-1))); do tail -n +9 /tmp/MATRIX.part$i.md; done; } > seeded/MATRIX.md
rm -f /tmp/MATRIX.part*.md /tmp/mx_part.* /tmp/mx_all.txt /tmp/mx?.log
echo merged $(grep -c "^| C" seeded/MATRIX.md) rows
