//! Scripted inner services. Every inner call gets a fresh serial number; a drop guard inside the
//! returned future logs completion / drop / panic and maintains the in-flight count.

use crate::sim::{current_task, now, Ev, Log, Req, ScriptedPanic};
use futures::future::BoxFuture;
use serde::{Deserialize, Serialize};
use std::collections::HashMap;
use std::fmt;
use std::sync::atomic::{AtomicBool, AtomicI64, AtomicU32, AtomicU64, Ordering};
use std::sync::{Arc, Mutex};
use std::task::{Context, Poll};
use std::time::Duration;

#[derive(Clone, Debug, PartialEq, Eq)]
pub struct Resp {
    pub serial: u64,
    pub req: Req,
}

#[derive(Clone, Debug, PartialEq, Eq)]
pub struct SErr {
    pub code: u32,
    pub serial: u64,
}

impl fmt::Display for SErr {
    fn fmt(&self, f: &mut fmt::Formatter<'_>) -> fmt::Result {
        write!(f, "SErr(code={},serial={})", self.code, self.serial)
    }
}
/// What an `SErr` with code 2 names as its cause. Its text looks like a connection failure
/// (`code=1,`): a classifier that is asked about the error itself must not be fooled by it.
#[derive(Debug)]
pub struct Cause;
impl fmt::Display for Cause {
    fn fmt(&self, f: &mut fmt::Formatter<'_>) -> fmt::Result {
        write!(f, "caused by SErr(code=1,serial=0): connection reset")
    }
}
impl std::error::Error for Cause {}
static CAUSE: Cause = Cause;

impl std::error::Error for SErr {
    fn source(&self) -> Option<&(dyn std::error::Error + 'static)> {
        if self.code == 2 {
            Some(&CAUSE)
        } else {
            None
        }
    }
}

#[derive(Clone, Copy, Debug, PartialEq, Eq, Hash, Serialize, Deserialize)]
pub enum Lat {
    Ms(u64),
    Never,
    /// completes when the harness opens the gate
    Gate,
    /// busy for this many virtual ms: every poll drains the task's cooperative budget with
    /// immediately ready tokio operations (as draining a full channel would) before yielding
    Busy(u64),
    /// completes after this many ms and, in the poll in which it completes, first uses up the
    /// task's whole cooperative budget (a future that did a lot of ready work in that poll): the
    /// next tokio operation of whoever awaits it (a lock, a channel, a semaphore) yields once
    MsDrain(u64),
    /// the work is done by a task of its own, which has the result after this many ms whether or
    /// not anybody polls the call future meanwhile (it logs the note "available" then); the call
    /// future completes at its first poll after that
    Spawned(u64),
}

#[derive(Clone, Copy, Debug, PartialEq, Eq, Hash, Serialize, Deserialize)]
pub enum Out {
    Ok,
    Err(u32),
    Panic,
    /// the service panics inside `Service::call` itself, before it returns a future
    PanicInCall,
}

#[derive(Clone, Copy, Debug, PartialEq, Eq, Hash, Serialize, Deserialize)]
pub struct Step {
    pub lat: Lat,
    pub out: Out,
}

impl Step {
    pub const fn ok(ms: u64) -> Step {
        Step {
            lat: Lat::Ms(ms),
            out: Out::Ok,
        }
    }
    pub const fn err(ms: u64, code: u32) -> Step {
        Step {
            lat: Lat::Ms(ms),
            out: Out::Err(code),
        }
    }
}

/// (request, index of this call among calls with the same req.id, global call index) -> step
pub type ScriptFn = dyn Fn(&Req, usize, usize) -> Step + Send + Sync;

pub struct Shared {
    pub log: Log,
    script: Box<ScriptFn>,
    per_req_calls: Mutex<HashMap<u32, usize>>,
    calls: AtomicU64,
    next_serial: AtomicU64,
    pub in_flight: AtomicI64,
    pub max_in_flight: AtomicI64,
    next_inst: AtomicU32,
    gate_open: AtomicBool,
    gate: tokio::sync::Notify,
}

impl Shared {
    pub fn in_flight(&self) -> i64 {
        self.in_flight.load(Ordering::SeqCst)
    }
    pub fn calls(&self) -> u64 {
        self.calls.load(Ordering::SeqCst)
    }
    pub fn open_gate(&self) {
        self.gate_open.store(true, Ordering::SeqCst);
        self.gate.notify_waiters();
    }
    pub fn close_gate(&self) {
        self.gate_open.store(false, Ordering::SeqCst);
    }
}

pub struct Scripted {
    pub shared: Arc<Shared>,
    pub inst: u32,
}

impl Clone for Scripted {
    fn clone(&self) -> Self {
        Scripted {
            shared: self.shared.clone(),
            inst: self.shared.next_inst.fetch_add(1, Ordering::SeqCst),
        }
    }
}

impl Scripted {
    pub fn new(
        log: Log,
        first_serial: u64,
        script: impl Fn(&Req, usize, usize) -> Step + Send + Sync + 'static,
    ) -> Self {
        Scripted {
            shared: Arc::new(Shared {
                log,
                script: Box::new(script),
                per_req_calls: Mutex::new(HashMap::new()),
                calls: AtomicU64::new(0),
                next_serial: AtomicU64::new(first_serial),
                in_flight: AtomicI64::new(0),
                max_in_flight: AtomicI64::new(0),
                next_inst: AtomicU32::new(1),
                gate_open: AtomicBool::new(false),
                gate: tokio::sync::Notify::new(),
            }),
            inst: 0,
        }
    }

    /// Script given as a table per request id; requests without an entry (or past the end of
    /// their entry) get `default`.
    pub fn from_table(log: Log, table: HashMap<u32, Vec<Step>>, default: Step) -> Self {
        Self::new(log, 1, move |req, k, _| {
            table
                .get(&req.id)
                .and_then(|v| v.get(k).or(v.last()))
                .copied()
                .unwrap_or(default)
        })
    }
}

struct Guard {
    shared: Arc<Shared>,
    serial: u64,
    finished: bool,
}

impl Drop for Guard {
    fn drop(&mut self) {
        self.shared.in_flight.fetch_sub(1, Ordering::SeqCst);
        if !self.finished {
            if std::thread::panicking() {
                self.shared.log.push(Ev::Panicked {
                    t: now(),
                    serial: self.serial,
                });
            } else {
                self.shared.log.push(Ev::Dropped {
                    t: now(),
                    serial: self.serial,
                });
            }
        }
    }
}

pub fn run_step(
    shared: Arc<Shared>,
    serial: u64,
    req: Req,
    step: Step,
) -> BoxFuture<'static, Result<Resp, SErr>> {
    let n = shared.in_flight.fetch_add(1, Ordering::SeqCst) + 1;
    shared.max_in_flight.fetch_max(n, Ordering::SeqCst);
    let mut guard = Guard {
        shared: shared.clone(),
        serial,
        finished: false,
    };
    Box::pin(async move {
        match step.lat {
            Lat::Ms(0) => {}
            Lat::Ms(ms) => tokio::time::sleep(Duration::from_millis(ms)).await,
            Lat::Never => futures::future::pending::<()>().await,
            Lat::Gate => {
                while !shared.gate_open.load(Ordering::SeqCst) {
                    shared.gate.notified().await;
                }
            }
            Lat::MsDrain(ms) => {
                if ms > 0 {
                    tokio::time::sleep(Duration::from_millis(ms)).await;
                }
                std::future::poll_fn(|cx| {
                    let mut guard = 0;
                    while tokio::task::coop::has_budget_remaining() && guard < 10_000 {
                        let mut f = Box::pin(tokio::task::coop::consume_budget());
                        let _ = std::future::Future::poll(f.as_mut(), cx);
                        guard += 1;
                    }
                    Poll::Ready(())
                })
                .await;
            }
            Lat::Spawned(ms) => {
                let (tx, rx) = tokio::sync::oneshot::channel::<()>();
                let lg = shared.log.clone();
                tokio::spawn(async move {
                    if ms > 0 {
                        tokio::time::sleep(Duration::from_millis(ms)).await;
                    }
                    lg.note("available", serial as i64, 0);
                    let _ = tx.send(());
                });
                let _ = rx.await;
            }
            Lat::Busy(ms) => {
                let until = std::time::Instant::now() + Duration::from_millis(ms);
                // never yields voluntarily: only the exhausted budget makes a poll return
                while std::time::Instant::now() < until {
                    tokio::task::coop::consume_budget().await;
                }
            }
        }
        match step.out {
            Out::Panic | Out::PanicInCall => std::panic::panic_any(ScriptedPanic),
            Out::Ok => {
                guard.finished = true;
                shared.log.push(Ev::Done {
                    t: now(),
                    serial,
                    ok: true,
                });
                drop(guard);
                Ok(Resp { serial, req })
            }
            Out::Err(code) => {
                guard.finished = true;
                shared.log.push(Ev::Done {
                    t: now(),
                    serial,
                    ok: false,
                });
                drop(guard);
                Err(SErr { code, serial })
            }
        }
    })
}

impl Scripted {
    /// Logs the entry, picks the script step and returns (serial, step).
    pub fn enter(&self, req: &Req) -> (u64, Step) {
        let sh = &self.shared;
        let serial = sh.next_serial.fetch_add(1, Ordering::SeqCst);
        let global = sh.calls.fetch_add(1, Ordering::SeqCst) as usize;
        let k = {
            let mut m = sh.per_req_calls.lock().unwrap();
            let e = m.entry(req.id).or_insert(0);
            let k = *e;
            *e += 1;
            k
        };
        let step = (sh.script)(req, k, global);
        sh.log.push(Ev::Enter {
            t: now(),
            serial,
            req: req.clone(),
            inst: self.inst,
            task: current_task(),
        });
        (serial, step)
    }
}

impl tower::Service<Req> for Scripted {
    type Response = Resp;
    type Error = SErr;
    type Future = BoxFuture<'static, Result<Resp, SErr>>;

    fn poll_ready(&mut self, _cx: &mut Context<'_>) -> Poll<Result<(), SErr>> {
        Poll::Ready(Ok(()))
    }

    fn call(&mut self, req: Req) -> Self::Future {
        let (serial, step) = self.enter(&req);
        if step.out == Out::PanicInCall {
            // entered and gone in the same breath: never in flight
            self.shared.log.push(Ev::Panicked { t: now(), serial });
            std::panic::panic_any(ScriptedPanic);
        }
        run_step(self.shared.clone(), serial, req, step)
    }
}

/// Wrapper whose *clones* need `ms` of virtual time after their creation before they report
/// readiness (a pooled connection being set up, a paced backend); the wrapped original is ready at
/// once. Pending readiness is woken by a timer, not by busy-polling.
pub struct SlowClones<S> {
    inner: S,
    ms: u64,
    not_before: Option<std::pin::Pin<Box<tokio::time::Sleep>>>,
    /// bit k set: the k-th clone made (counting from 0, over all clones of clones) fails its
    /// readiness check with `SErr { code: CLONE_NOT_READY, .. }` instead of becoming ready (a
    /// connection pool that has nothing to hand out)
    fail_mask: u8,
    fails: bool,
    made: Arc<AtomicU32>,
    /// readiness failures reported so far
    pub ready_failures: Arc<AtomicU32>,
}

pub const CLONE_NOT_READY: u32 = 7_700;

impl<S> SlowClones<S> {
    pub fn new(inner: S, ms: u64) -> Self {
        Self::failing(inner, ms, 0)
    }

    pub fn failing(inner: S, ms: u64, fail_mask: u8) -> Self {
        SlowClones {
            inner,
            ms,
            not_before: None,
            fail_mask,
            fails: false,
            made: Arc::new(AtomicU32::new(0)),
            ready_failures: Arc::new(AtomicU32::new(0)),
        }
    }
}

impl<S: Clone> Clone for SlowClones<S> {
    fn clone(&self) -> Self {
        let k = self.made.fetch_add(1, Ordering::SeqCst);
        SlowClones {
            inner: self.inner.clone(),
            ms: self.ms,
            not_before: (self.ms > 0)
                .then(|| Box::pin(tokio::time::sleep(Duration::from_millis(self.ms)))),
            fail_mask: self.fail_mask,
            fails: k < 8 && (self.fail_mask >> k) & 1 == 1,
            made: self.made.clone(),
            ready_failures: self.ready_failures.clone(),
        }
    }
}

impl<S, R> tower::Service<R> for SlowClones<S>
where
    S: tower::Service<R, Error = SErr>,
{
    type Response = S::Response;
    type Error = S::Error;
    type Future = S::Future;

    fn poll_ready(&mut self, cx: &mut Context<'_>) -> Poll<Result<(), S::Error>> {
        if let Some(s) = self.not_before.as_mut() {
            if std::future::Future::poll(s.as_mut(), cx).is_pending() {
                return Poll::Pending;
            }
            self.not_before = None;
        }
        if self.fails {
            self.ready_failures.fetch_add(1, Ordering::SeqCst);
            return Poll::Ready(Err(SErr {
                code: CLONE_NOT_READY,
                serial: 0,
            }));
        }
        self.inner.poll_ready(cx)
    }

    fn call(&mut self, req: R) -> Self::Future {
        self.inner.call(req)
    }
}

/// Wrapper whose readiness (on every clone) is withheld during the virtual-time intervals
/// `[from, to)` (ms since the case epoch): a backend that is busy for a while. Pending readiness
/// is woken by a timer at the end of the interval. Requests handed over by `call` are served
/// regardless (a caller that respected `poll_ready` before calling never notices the wrapper).
pub struct BusyAt<S> {
    inner: S,
    windows: Arc<Vec<(u64, u64)>>,
    until: Option<std::pin::Pin<Box<tokio::time::Sleep>>>,
}

impl<S> BusyAt<S> {
    pub fn new(inner: S, windows: Vec<(u64, u64)>) -> Self {
        BusyAt {
            inner,
            windows: Arc::new(windows),
            until: None,
        }
    }
}

impl<S: Clone> Clone for BusyAt<S> {
    fn clone(&self) -> Self {
        BusyAt {
            inner: self.inner.clone(),
            windows: self.windows.clone(),
            until: None,
        }
    }
}

impl<S, R> tower::Service<R> for BusyAt<S>
where
    S: tower::Service<R>,
{
    type Response = S::Response;
    type Error = S::Error;
    type Future = S::Future;

    fn poll_ready(&mut self, cx: &mut Context<'_>) -> Poll<Result<(), S::Error>> {
        loop {
            if let Some(s) = self.until.as_mut() {
                if std::future::Future::poll(s.as_mut(), cx).is_pending() {
                    return Poll::Pending;
                }
                self.until = None;
            }
            let now = crate::sim::now();
            match self.windows.iter().find(|(a, b)| now >= *a && now < *b) {
                Some((_, b)) => {
                    self.until = Some(Box::pin(tokio::time::sleep(Duration::from_millis(b - now))));
                }
                None => return self.inner.poll_ready(cx),
            }
        }
    }

    fn call(&mut self, req: R) -> Self::Future {
        self.inner.call(req)
    }
}
