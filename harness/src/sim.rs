//! Deterministic simulator: the harness is the executor. Caller futures are polled by hand in an
//! order drawn from the generated case, can be dropped at generated points, and time only moves
//! when the harness says so (1 ms ticks of the virtual clock, see `vclock`).

use crate::vclock;
use serde::Serialize;
use std::any::Any;
use std::cell::Cell;
use std::future::Future;
use std::panic::{catch_unwind, AssertUnwindSafe};
use std::pin::Pin;
use std::sync::atomic::{AtomicBool, Ordering};
use std::sync::{Arc, Mutex};
use std::task::{Context, Poll, Wake, Waker};

thread_local! {
    static EPOCH_NS: Cell<u64> = const { Cell::new(0) };
    /// Index of the sim task currently being polled (-1 outside of task polls).
    static CURRENT_TASK: Cell<i32> = const { Cell::new(-1) };
}

/// Virtual milliseconds since the current case began.
pub fn now() -> u64 {
    (vclock::now_ns() - EPOCH_NS.with(|e| e.get())) / 1_000_000
}

pub fn current_task() -> i32 {
    CURRENT_TASK.with(|c| c.get())
}

/// Marker payload for scripted (expected) panics.
pub struct ScriptedPanic;

#[derive(Clone, Debug, PartialEq, Eq, Hash, Serialize, serde::Deserialize)]
pub struct Req {
    pub id: u32,
    pub key: u32,
    pub tag: u64,
}

#[derive(Clone, Debug, PartialEq, Eq, Serialize)]
pub enum Outcome {
    /// Ok response carrying the serial of the inner call that produced it and the echoed request.
    Ok { serial: u64, req: Req },
    /// The inner error, passed through the layer's pass-through variant.
    Inner { code: u32, serial: u64 },
    /// A layer-generated error (variant name).
    Layer(String),
    /// Anything else (described).
    Other(String),
}

#[derive(Clone, Debug, PartialEq, Eq, Serialize)]
pub enum Ev {
    /// inner `call()` entered
    Enter {
        t: u64,
        serial: u64,
        req: Req,
        inst: u32,
        task: i32,
    },
    /// inner future completed (ok / err)
    Done { t: u64, serial: u64, ok: bool },
    /// inner future dropped before completion
    Dropped { t: u64, serial: u64 },
    /// inner future panicked (scripted)
    Panicked { t: u64, serial: u64 },
    /// outer future resolved
    Resolve { t: u64, task: usize, out: Outcome },
    /// harness dropped the outer future
    Cancel { t: u64, task: usize },
    /// outer future panicked while polled
    TaskPanic {
        t: u64,
        task: usize,
        scripted: bool,
        msg: String,
    },
    /// anything else (listener events, state observations, budget grants ...)
    Note {
        t: u64,
        kind: &'static str,
        a: i64,
        b: i64,
    },
}

impl Ev {
    pub fn t(&self) -> u64 {
        match self {
            Ev::Enter { t, .. }
            | Ev::Done { t, .. }
            | Ev::Dropped { t, .. }
            | Ev::Panicked { t, .. }
            | Ev::Resolve { t, .. }
            | Ev::Cancel { t, .. }
            | Ev::TaskPanic { t, .. }
            | Ev::Note { t, .. } => *t,
        }
    }
}

#[derive(Clone, Default)]
pub struct Log(Arc<Mutex<Vec<Ev>>>);

impl Log {
    pub fn new() -> Self {
        Self::default()
    }
    pub fn push(&self, ev: Ev) {
        self.0.lock().unwrap().push(ev);
    }
    pub fn note(&self, kind: &'static str, a: i64, b: i64) {
        self.push(Ev::Note {
            t: now(),
            kind,
            a,
            b,
        });
    }
    pub fn len(&self) -> usize {
        self.0.lock().unwrap().len()
    }
    pub fn snapshot(&self) -> Vec<Ev> {
        self.0.lock().unwrap().clone()
    }
    pub fn with<R>(&self, f: impl FnOnce(&[Ev]) -> R) -> R {
        f(&self.0.lock().unwrap())
    }
}

struct Flag(AtomicBool);
impl Wake for Flag {
    fn wake(self: Arc<Self>) {
        self.0.store(true, Ordering::SeqCst);
    }
    fn wake_by_ref(self: &Arc<Self>) {
        self.0.store(true, Ordering::SeqCst);
    }
}

/// One waker per poll. Only the waker handed to the *most recent* poll of a task reaches it (a
/// future moved between tasks - `timeout(d, &mut fut)` and then `spawn(fut)`, a JoinSet, a
/// FuturesUnordered - is woken through the new task's waker only; waking the old one does nothing
/// for it). The `Future` contract requires every poll to arrange for the waker of *that* poll to be
/// woken, so code that keeps the waker of an earlier poll loses its wake-up here.
struct GenWaker {
    flag: Arc<Flag>,
    current: Arc<std::sync::atomic::AtomicU64>,
    mine: u64,
}
impl Wake for GenWaker {
    fn wake(self: Arc<Self>) {
        self.wake_by_ref();
    }
    fn wake_by_ref(self: &Arc<Self>) {
        if self.current.load(Ordering::SeqCst) == self.mine {
            self.flag.0.store(true, Ordering::SeqCst);
        }
    }
}

#[derive(Clone, Copy, Debug, PartialEq, Eq)]
pub enum TaskState {
    Live,
    Done,
    Cancelled,
    Panicked,
}

struct Slot {
    fut: Option<Pin<Box<dyn Future<Output = ()>>>>,
    flag: Arc<Flag>,
    /// generation of the waker handed out by the latest poll
    gen: Arc<std::sync::atomic::AtomicU64>,
    state: TaskState,
    polls: u32,
    /// consecutive fruitless polls and the progress epoch at which the last one happened
    spin: u32,
    spin_epoch: usize,
}

/// Source of poll-order choices (part of the generated case).
pub struct Order {
    choices: Vec<u8>,
    pos: usize,
    pub multi_picks: usize,
}

impl Order {
    pub fn new(choices: Vec<u8>) -> Self {
        Order {
            choices,
            pos: 0,
            multi_picks: 0,
        }
    }
    /// Monotone map of the next choice byte onto 0..n.
    pub fn pick(&mut self, n: usize) -> usize {
        if n <= 1 {
            return 0;
        }
        self.multi_picks += 1;
        let c = self.choices.get(self.pos).copied().unwrap_or(0) as usize;
        self.pos += 1;
        (c * n) >> 8
    }
}

pub struct Sim {
    tasks: Vec<Slot>,
    pub log: Log,
    pub order: Order,
    completed: usize,
    /// set when a non-scripted panic escaped a task
    pub unexpected_panics: Vec<(usize, String)>,
    /// set when an instant did not quiesce: the code under test keeps doing things without time
    /// passing (e.g. an unbounded retry loop with a zero delay). Sticky: no further polling.
    pub livelock: bool,
    /// When set, `spawn_call` polls the response future through a reference and keeps the
    /// resolved future object alive for this many ms before dropping it (a caller that holds the
    /// future in a pinned local, a slot table or a struct field does exactly that).
    pub hold_resolved_ms: Option<u64>,
    /// every poll gets a waker of its own and wakes through older ones are lost (default on;
    /// VCHECK_SAME_WAKER=1 switches it off for diagnosis)
    pub fresh_wakers: bool,
    /// at quiescence a pending caller is now and then polled although nobody woke it (as happens to
    /// every branch of a `select!`/`join!` when a sibling wakes); which one and when is a
    /// deterministic function of the case's order bytes and the instant. An empty order vector
    /// means no spurious polls. VCHECK_NO_SPURIOUS=1 switches it off for diagnosis.
    pub spurious_polls: bool,
    /// At the start of every settle, tasks the library spawned on the runtime (woken by timers
    /// that have just fired, or by what the instant's operations did) run to quiescence BEFORE
    /// any woken caller is polled; by default a woken caller is polled as soon as it is seen.
    /// Both orders are legitimate schedules of a real runtime.
    pub spawned_first: bool,
    frozen: Vec<u64>,
    starved: Vec<bool>,
    settles: u64,
}

const SPIN_CAP: u32 = 3;
const QUIET_YIELDS: u32 = 3;

impl Sim {
    pub fn new(log: Log, order: Vec<u8>) -> Self {
        Sim {
            tasks: Vec::new(),
            log,
            order: Order::new(order),
            completed: 0,
            unexpected_panics: Vec::new(),
            livelock: false,
            hold_resolved_ms: None,
            fresh_wakers: std::env::var_os("VCHECK_SAME_WAKER").is_none(),
            spurious_polls: std::env::var_os("VCHECK_NO_SPURIOUS").is_none(),
            spawned_first: false,
            frozen: vec![],
            starved: vec![],
            settles: 0,
        }
    }

    /// Registers a caller future; it is first polled during the next `settle`.
    pub fn spawn<F: Future<Output = ()> + 'static>(&mut self, f: F) -> usize {
        self.tasks.push(Slot {
            fut: Some(Box::pin(f)),
            flag: Arc::new(Flag(AtomicBool::new(true))),
            gen: Arc::new(std::sync::atomic::AtomicU64::new(0)),
            state: TaskState::Live,
            polls: 0,
            spin: 0,
            spin_epoch: usize::MAX,
        });
        self.tasks.len() - 1
    }

    /// Registers a caller future whose output is turned into an `Outcome` and logged as `Resolve`.
    pub fn spawn_call<F, T>(&mut self, f: F, map: impl FnOnce(T) -> Outcome + 'static) -> usize
    where
        F: Future<Output = T> + 'static,
    {
        let log = self.log.clone();
        let idx = self.tasks.len();
        let hold = self.hold_resolved_ms;
        self.spawn(async move {
            let mut f = Box::pin(f);
            let r = f.as_mut().await;
            log.push(Ev::Resolve {
                t: now(),
                task: idx,
                out: map(r),
            });
            if let Some(h) = hold {
                tokio::time::sleep(std::time::Duration::from_millis(h)).await;
            }
            drop(f);
        })
    }

    pub fn state(&self, i: usize) -> TaskState {
        self.tasks[i].state
    }
    pub fn polls(&self, i: usize) -> u32 {
        self.tasks[i].polls
    }
    pub fn n_tasks(&self) -> usize {
        self.tasks.len()
    }
    pub fn live_tasks(&self) -> Vec<usize> {
        (0..self.tasks.len())
            .filter(|&i| self.tasks[i].state == TaskState::Live)
            .collect()
    }

    /// Drops a live caller future (cancellation). Returns false if it was not live.
    pub fn cancel(&mut self, i: usize) -> bool {
        if self.tasks[i].state != TaskState::Live {
            return false;
        }
        self.log.push(Ev::Cancel { t: now(), task: i });
        let fut = self.tasks[i].fut.take();
        self.tasks[i].state = TaskState::Cancelled;
        // dropping may run guards that panic only if the code under test is broken
        let r = catch_unwind(AssertUnwindSafe(move || drop(fut)));
        if let Err(p) = r {
            self.unexpected_panics
                .push((i, format!("panic in drop: {}", panic_msg(&p))));
        }
        self.completed += 1;
        true
    }

    /// Deterministic pseudo-random choice (FNV over the order bytes, the instant and the settle
    /// count): in about one settle out of six, one live caller that nobody woke.
    fn spurious_target(&self) -> Option<usize> {
        if self.order.choices.is_empty() {
            return None;
        }
        let mut h: u64 = 0xcbf29ce484222325;
        for b in self
            .order
            .choices
            .iter()
            .copied()
            .chain(now().to_le_bytes())
            .chain(self.settles.to_le_bytes())
        {
            h ^= b as u64;
            h = h.wrapping_mul(0x100000001b3);
        }
        if (h >> 8) % 6 != 0 {
            return None;
        }
        let live: Vec<usize> = (0..self.tasks.len())
            .filter(|&i| self.tasks[i].state == TaskState::Live && self.tasks[i].polls > 0 && !self.is_frozen(i))
            .collect();
        if live.is_empty() {
            return None;
        }
        Some(live[((h >> 24) as usize) % live.len()])
    }

    fn epoch(&self) -> usize {
        self.log.len() + self.completed
    }

    /// The task is not polled (whatever wakes it) before the virtual instant `until_ms`: a caller
    /// whose own task is busy elsewhere while timers and other tasks go on.
    pub fn freeze(&mut self, i: usize, until_ms: u64) {
        if self.frozen.len() <= i {
            self.frozen.resize(i + 1, 0);
        }
        self.frozen[i] = until_ms;
    }

    /// The task's first poll starts with an exhausted cooperative budget (it did 128 units of
    /// other ready tokio work in the same poll before reaching the future under test); tokio
    /// primitives then return Pending once, whatever their state, and the task is polled again.
    pub fn starve_first_poll(&mut self, i: usize) {
        if self.starved.len() <= i {
            self.starved.resize(i + 1, false);
        }
        self.starved[i] = true;
    }

    fn is_frozen(&self, i: usize) -> bool {
        self.frozen.get(i).map_or(false, |&u| now() < u)
    }

    fn woken(&self) -> Vec<usize> {
        let ep = self.epoch();
        (0..self.tasks.len())
            .filter(|&i| {
                let s = &self.tasks[i];
                s.state == TaskState::Live
                    && !self.is_frozen(i)
                    && s.flag.0.load(Ordering::SeqCst)
                    && (s.spin < SPIN_CAP || s.spin_epoch != ep)
            })
            .collect()
    }

    fn poll_task(&mut self, i: usize) {
        let before = self.epoch();
        let slot = &mut self.tasks[i];
        slot.flag.0.store(false, Ordering::SeqCst);
        slot.polls += 1;
        let waker = if self.fresh_wakers {
            let mine = slot.gen.fetch_add(1, Ordering::SeqCst) + 1;
            Waker::from(Arc::new(GenWaker {
                flag: slot.flag.clone(),
                current: slot.gen.clone(),
                mine,
            }))
        } else {
            Waker::from(slot.flag.clone())
        };
        let mut cx = Context::from_waker(&waker);
        if slot.polls == 1 && self.starved.get(i).copied().unwrap_or(false) {
            // the task has used up its cooperative budget on other ready work in this very poll
            // before it gets to the future under test
            let mut guard = 0;
            while tokio::task::coop::has_budget_remaining() && guard < 10_000 {
                let mut f = Box::pin(tokio::task::coop::consume_budget());
                let _ = Future::poll(f.as_mut(), &mut cx);
                guard += 1;
            }
        }
        let fut = slot.fut.as_mut().unwrap();
        CURRENT_TASK.with(|c| c.set(i as i32));
        let r = catch_unwind(AssertUnwindSafe(|| fut.as_mut().poll(&mut cx)));
        CURRENT_TASK.with(|c| c.set(-1));
        match r {
            Ok(Poll::Ready(())) => {
                slot.state = TaskState::Done;
                slot.fut = None;
                self.completed += 1;
            }
            Ok(Poll::Pending) => {
                let after = self.log.len() + self.completed;
                let slot = &mut self.tasks[i];
                if after == before {
                    slot.spin += 1;
                    slot.spin_epoch = after;
                } else {
                    slot.spin = 0;
                    slot.spin_epoch = usize::MAX;
                }
            }
            Err(p) => {
                let scripted = p.is::<ScriptedPanic>();
                let msg = if scripted {
                    String::from("scripted")
                } else {
                    panic_msg(&p)
                };
                slot.state = TaskState::Panicked;
                let fut = slot.fut.take();
                let _ = catch_unwind(AssertUnwindSafe(move || drop(fut)));
                self.completed += 1;
                if !scripted {
                    self.unexpected_panics.push((i, msg.clone()));
                }
                self.log.push(Ev::TaskPanic {
                    t: now(),
                    task: i,
                    scripted,
                    msg,
                });
            }
        }
    }

    /// Polls woken tasks (one at a time, in the generated order) and lets tokio run its own
    /// spawned tasks and timers, until nothing moves any more at the current instant.
    pub async fn settle(&mut self) {
        for s in self.tasks.iter_mut() {
            s.spin = 0;
            s.spin_epoch = usize::MAX;
        }
        if self.livelock {
            return;
        }
        let mut quiet = 0;
        let mut guard = 0u32;
        let log_at_start = self.log.len();
        self.settles += 1;
        if self.spawned_first {
            for _ in 0..QUIET_YIELDS {
                tokio::task::yield_now().await;
            }
        }
        let mut spurious_left = 1u32;
        loop {
            guard += 1;
            if guard > 50_000 || self.log.len() > log_at_start + 20_000 {
                // reported by every property as a violation (through `unexpected_panics`)
                self.livelock = true;
                self.unexpected_panics.push((
                    usize::MAX,
                    format!(
                        "no quiescence at t={} ms after 50000 polls / 20000 events in one instant: unbounded activity without time passing",
                        now()
                    ),
                ));
                return;
            }
            let woken = self.woken();
            if woken.is_empty() {
                let before = self.epoch();
                tokio::task::yield_now().await;
                if !self.woken().is_empty() || self.epoch() != before {
                    quiet = 0;
                    continue;
                }
                quiet += 1;
                if quiet >= QUIET_YIELDS {
                    if self.spurious_polls && spurious_left > 0 {
                        spurious_left -= 1;
                        if let Some(i) = self.spurious_target() {
                            self.poll_task(i);
                            tokio::task::yield_now().await;
                            quiet = 0;
                            continue;
                        }
                    }
                    break;
                }
                continue;
            }
            quiet = 0;
            let k = self.order.pick(woken.len());
            self.poll_task(woken[k]);
            // Return to tokio after every caller poll: each poll then starts with a fresh cooperative
            // budget, as a poll of a real task would (otherwise all hand-polled callers would share
            // the root future's budget of 128 operations), and library-spawned tasks get to run.
            tokio::task::yield_now().await;
        }
    }

    /// Advances the virtual clock by one millisecond and lets the timer driver fire what is due,
    /// without polling any caller: the woken callers then compete with this instant's arrivals
    /// in the generated poll order (call `settle` after applying the instant's operations).
    pub async fn begin_instant(&mut self) {
        vclock::advance_ms(1);
        tokio::task::yield_now().await;
    }

    /// Advances the virtual clock by one millisecond and settles.
    pub async fn tick(&mut self) {
        vclock::advance_ms(1);
        self.settle().await;
    }

    pub async fn advance(&mut self, ms: u64) {
        for _ in 0..ms {
            self.tick().await;
        }
    }

    /// Advance in coarse steps (for long horizons where only >= relations are checked).
    pub async fn advance_coarse(&mut self, total_ms: u64, step_ms: u64) {
        let mut left = total_ms;
        while left > 0 {
            let s = left.min(step_ms.max(1));
            vclock::advance_ms(s);
            self.settle().await;
            left -= s;
        }
    }
}

pub fn panic_msg(p: &Box<dyn Any + Send>) -> String {
    if let Some(s) = p.downcast_ref::<&'static str>() {
        s.to_string()
    } else if let Some(s) = p.downcast_ref::<String>() {
        s.clone()
    } else if p.is::<ScriptedPanic>() {
        "scripted".to_string()
    } else {
        "non-string panic payload".to_string()
    }
}

/// Runs one case on a fresh current-thread tokio runtime (un-paused; it reads the virtual clock).
/// Everything the case spawned dies with the runtime.
pub fn run_case<T>(f: impl Future<Output = T>) -> T {
    // start each case on a whole millisecond with a fresh epoch; the runtime (whose timer wheel
    // counts milliseconds from its own creation) is built after that alignment, so that a previous
    // case which left the clock between two ticks cannot shift this case's timers
    let n = vclock::now_ns();
    let rem = n % 1_000_000;
    if rem != 0 {
        vclock::advance_ns(1_000_000 - rem);
    }
    EPOCH_NS.with(|e| e.set(vclock::now_ns()));
    let rt = tokio::runtime::Builder::new_current_thread()
        .enable_time()
        .build()
        .expect("runtime");
    let out = rt.block_on(f);
    drop(rt);
    // leave a gap so that nothing of the next case coincides with leftovers
    vclock::advance_ms(10);
    if vclock::now_ns() > (1u64 << 62) {
        // about 146 years of virtual time used up on this thread (cases that jump far ahead)
        vclock::reset();
    }
    out
}

thread_local! {
    /// source location of the most recent non-scripted panic on this thread
    static LAST_PANIC_AT: std::cell::RefCell<Option<String>> = const { std::cell::RefCell::new(None) };
}

/// Where the most recent (non-scripted) panic of this thread was raised.
pub fn last_panic_location() -> Option<String> {
    LAST_PANIC_AT.with(|l| l.borrow().clone())
}

/// Installs a panic hook that stays silent (the harness reports panics itself).
pub fn install_quiet_panic_hook() {
    std::panic::set_hook(Box::new(|info| {
        if info.payload().is::<ScriptedPanic>() {
            return;
        }
        // innermost frame that is neither std/core/alloc nor panic machinery: whose code panicked
        let bt = std::backtrace::Backtrace::force_capture().to_string();
        let origin = bt
            .lines()
            .map(|l| l.trim())
            .filter(|l| l.chars().next().map_or(false, |c| c.is_ascii_digit()))
            .map(|l| l.splitn(2, ": ").nth(1).unwrap_or("").to_string())
            .find(|f| {
                !(f.starts_with("std::")
                    || f.starts_with("core::")
                    || f.starts_with("alloc::")
                    || f.starts_with("<std::")
                    || f.starts_with("<core::")
                    || f.starts_with("<alloc::")
                    || f.contains("rust_begin_unwind")
                    || f.contains("rust_panic")
                    || f.contains("panic_fmt")
                    || f.contains("panicking")
                    || f.contains("install_quiet_panic_hook")
                    || f.contains("backtrace"))
            })
            .unwrap_or_default();
        let at = info
            .location()
            .map(|l| format!("{}:{} in {}", l.file(), l.line(), origin))
            .or(Some(origin));
        LAST_PANIC_AT.with(|l| *l.borrow_mut() = at);
        if std::env::var_os("VCHECK_SHOW_PANICS").is_some() {
            eprintln!("[panic] {info}");
        }
    }));
}
