use vcheck::runner::{self, drive, Opts, Tier};
use vcheck::{props, sim};

fn usage() -> ! {
    eprintln!("usage: vcheck <C01..C20> [--tier quick|thorough] [--replay FILE] [--cases N] [--threads N] [--verif-dir DIR]");
    std::process::exit(2);
}

fn main() {
    let args: Vec<String> = std::env::args().collect();
    if args.len() < 2 {
        usage();
    }
    let id = args[1].clone();
    let mut opts = Opts {
        tier: match std::env::var("VERIF_TIER").ok().as_deref() {
            Some("thorough") => Tier::Thorough,
            _ => Tier::Quick,
        },
        seed: std::env::var("VERIF_SEED")
            .ok()
            .and_then(|s| s.trim().parse::<i64>().ok())
            .map(|v| v as u64)
            .unwrap_or(0),
        replay: None,
        cases: None,
        threads: None,
        verif_dir: "/verif".to_string(),
    };
    let mut i = 2;
    while i < args.len() {
        let val = |i: usize| args.get(i + 1).cloned().unwrap_or_else(|| usage());
        match args[i].as_str() {
            "--tier" => {
                opts.tier = match val(i).as_str() {
                    "quick" => Tier::Quick,
                    "thorough" => Tier::Thorough,
                    _ => usage(),
                };
                i += 2;
            }
            "--replay" => {
                opts.replay = Some(val(i));
                i += 2;
            }
            "--cases" => {
                opts.cases = val(i).parse().ok();
                i += 2;
            }
            "--threads" => {
                opts.threads = val(i).parse().ok();
                i += 2;
            }
            "--verif-dir" => {
                opts.verif_dir = val(i);
                i += 2;
            }
            "--seed" => {
                opts.seed = val(i).parse().unwrap_or(0);
                i += 2;
            }
            _ => usage(),
        }
    }
    // the checks are meaningless unless std/tokio time follows the interposed clock: verify first
    if let Err(e) = vcheck::vclock::self_check() {
        println!("HARNESS-ERROR virtual clock is not effective in this environment: {e}");
        std::process::exit(2);
    }
    if id == "selftest" {
        std::process::exit(vcheck::selftest::run());
    }
    sim::install_quiet_panic_hook();
    runner::start_watchdog(match opts.tier {
        Tier::Quick => 900,
        Tier::Thorough => 14_400,
    });
    let code = match id.as_str() {
        "C01" => drive(&props::bulkhead::C01, &opts),
        "C07" => drive(&props::bulkhead::C07, &opts),
        "C04" => drive(&props::breaker_model::C04, &opts),
        "C03" => drive(&props::breaker_conc::C03, &opts),
        "C09" => drive(&props::breaker_conc::C09, &opts),
        "C05" => drive(&props::retry::C05, &opts),
        "C06" => drive(&props::timelimiter::C06, &opts),
        "C14" => drive(&props::backoff::C14, &opts),
        "C12" => drive(&props::hedge::C12, &opts),
        "C08" => drive(&props::budget::C08, &opts),
        "C13" => drive(&props::adaptive::C13, &opts),
        "C10" => drive(&props::cache::C10, &opts),
        "C11" => drive(&props::coalesce::C11, &opts),
        "C16" => drive(&props::reconnect::C16, &opts),
        "C17" => drive(&props::fallback::C17, &opts),
        "C19" => drive(&props::chaos::C19, &opts),
        "C18" => drive(&props::health::C18, &opts),
        "C20" => drive(&props::c20::C20, &opts),
        "C02" => drive(&props::ratelimiter::C02, &opts),
        "C15" => drive(&props::ratelimiter::C15, &opts),
        _ => {
            eprintln!("unknown property {id}");
            2
        }
    };
    std::process::exit(code);
}
