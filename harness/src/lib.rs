//! vcheck: property-based checks for tower-resilience (library part, shared with the fuzz targets).
pub mod fuzzdec;
pub mod gen;
pub mod props;
pub mod runner;
pub mod sched;
pub mod selftest;
pub mod sim;
pub mod stress;
pub mod svc;
pub mod vclock;
