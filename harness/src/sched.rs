//! Schedule explorer for lock-free code: each logical thread of a case is an OS thread, exactly
//! one holds the baton, and at every instrumented atomic operation (tower_resilience_core::verif
//! yield point) the controller picks who runs next from the case's choice list. After every
//! atomic step the controller runs a monitor while nobody else runs.

use std::sync::{Arc, Condvar, Mutex};
use tower_resilience_core::verif;

struct St {
    current: Option<usize>,
    ready: Vec<bool>,
    done: Vec<bool>,
    /// number of yield points each thread has reached
    yields: Vec<u64>,
    panic: Option<String>,
}

struct Shared {
    m: Mutex<St>,
    cv: Condvar,
}

impl Shared {
    /// Called by logical thread `i` before each atomic operation (and once at start).
    fn pause(&self, i: usize) {
        let mut st = self.m.lock().unwrap();
        st.yields[i] += 1;
        st.ready[i] = true;
        if st.current == Some(i) {
            st.current = None;
        }
        self.cv.notify_all();
        while st.current != Some(i) {
            st = self.cv.wait(st).unwrap();
        }
    }
    fn finish(&self, i: usize, panic: Option<String>) {
        let mut st = self.m.lock().unwrap();
        st.done[i] = true;
        st.ready[i] = false;
        if st.current == Some(i) {
            st.current = None;
        }
        if st.panic.is_none() {
            st.panic = panic;
        }
        self.cv.notify_all();
    }
}

pub struct StepView<'a> {
    /// thread that just ran (None before the first step)
    pub ran: Option<usize>,
    pub step: usize,
    pub yields: &'a [u64],
}

pub struct Outcome {
    pub steps: usize,
    pub preemptions: usize,
    pub trace: Vec<u8>,
    pub panic: Option<String>,
    /// monitor verdict (first violation)
    pub violation: Option<String>,
}

/// Runs the logical threads under the schedule given by `choices`. A choice byte below 160 keeps
/// the thread that ran last (if it can still run); otherwise the byte selects among the runnable
/// threads. Missing choices are zeros (run to completion in index order).
pub fn explore<'env>(
    bodies: Vec<Box<dyn FnOnce() + Send + 'env>>,
    choices: &[u8],
    mut monitor: impl FnMut(&StepView) -> Option<String>,
) -> Outcome {
    let n = bodies.len();
    let shared = Arc::new(Shared {
        m: Mutex::new(St {
            current: None,
            ready: vec![false; n],
            done: vec![false; n],
            yields: vec![0; n],
            panic: None,
        }),
        cv: Condvar::new(),
    });
    let mut out = Outcome {
        steps: 0,
        preemptions: 0,
        trace: vec![],
        panic: None,
        violation: None,
    };
    std::thread::scope(|scope| {
        for (i, body) in bodies.into_iter().enumerate() {
            let sh = shared.clone();
            scope.spawn(move || {
                let sh2 = sh.clone();
                verif::install_scheduler(Some(Arc::new(move || sh2.pause(i))));
                sh.pause(i);
                let r = std::panic::catch_unwind(std::panic::AssertUnwindSafe(body));
                verif::install_scheduler(None);
                sh.finish(i, r.err().map(|p| crate::sim::panic_msg(&p)));
            });
        }
        let mut pos = 0usize;
        let mut last: Option<usize> = None;
        loop {
            let mut st = shared.m.lock().unwrap();
            // wait until nobody runs and every live thread is parked at a yield point
            while st.current.is_some() || (0..n).any(|i| !st.done[i] && !st.ready[i]) {
                st = shared.cv.wait(st).unwrap();
            }
            let yields = st.yields.clone();
            let runnable: Vec<usize> = (0..n).filter(|&i| st.ready[i] && !st.done[i]).collect();
            drop(st);
            if out.violation.is_none() {
                // a panicking monitor must not unwind out of the scope while the logical threads
                // are parked (the scope would wait for them forever)
                let verdict = std::panic::catch_unwind(std::panic::AssertUnwindSafe(|| {
                    monitor(&StepView {
                        ran: last,
                        step: out.steps,
                        yields: &yields,
                    })
                }));
                out.violation = match verdict {
                    Ok(v) => v,
                    Err(p) => Some(format!(
                        "monitor panicked after atomic step {}: {}",
                        out.steps,
                        crate::sim::panic_msg(&p)
                    )),
                };
            }
            if runnable.is_empty() {
                break;
            }
            let c = choices.get(pos).copied().unwrap_or(0);
            pos += 1;
            let pick = match last {
                Some(l) if c < 160 && runnable.contains(&l) => l,
                _ => {
                    let k = ((c as usize) * runnable.len()) >> 8;
                    runnable[k]
                }
            };
            if let Some(l) = last {
                if l != pick && runnable.contains(&l) {
                    out.preemptions += 1;
                }
            }
            out.trace.push(pick as u8);
            out.steps += 1;
            last = Some(pick);
            let mut st = shared.m.lock().unwrap();
            st.ready[pick] = false;
            st.current = Some(pick);
            shared.cv.notify_all();
        }
    });
    out.panic = shared.m.lock().unwrap().panic.clone();
    out
}
