//! Self-test of the oracles' own algorithms against brute force (run by `vcheck selftest`, part of setup).

use crate::props::ratelimiter::partition_witness;

/// brute force: try every way of cutting `adm` into consecutive groups of <= limit and check
/// whether cut instants >= p apart exist
fn brute_partition(adm: &[u64], limit: usize, p: u64) -> bool {
    fn rec(adm: &[u64], start: usize, earliest_cut: i64, limit: usize, p: u64) -> bool {
        let n = adm.len();
        if n - start <= limit {
            return true; // last, open-ended window
        }
        for size in 1..=limit.min(n - start - 1) {
            let k = start + size; // next group starts at k
            // cut between adm[k-1] and adm[k], at least p after the previous cut
            let lo = (earliest_cut + p as i64).max(adm[k - 1] as i64);
            // equal timestamps are one instant and belong to one window
            if adm[k - 1] != adm[k] && lo <= adm[k] as i64 && rec(adm, k, lo, limit, p) {
                return true;
            }
        }
        false
    }
    if adm.is_empty() {
        return true;
    }
    rec(adm, 0, i64::MIN / 4, limit, p)
}

pub fn run() -> i32 {
    // deterministic pseudo-random small inputs
    let mut x: u64 = 0x9e3779b97f4a7c15;
    let mut next = |m: u64| {
        x ^= x << 13;
        x ^= x >> 7;
        x ^= x << 17;
        x % m
    };
    let mut checked = 0;
    for _ in 0..200_000 {
        let n = next(9) as usize;
        let limit = 1 + next(3) as usize;
        let p = 1 + next(12);
        let mut adm: Vec<u64> = (0..n).map(|_| next(40)).collect();
        adm.sort_unstable();
        let a = partition_witness(&adm, limit, p).is_some();
        let b = brute_partition(&adm, limit, p);
        if a != b {
            println!("SELFTEST FAILED: partition_witness({adm:?}, limit {limit}, p {p}) = {a}, brute force = {b}");
            return 2;
        }
        checked += 1;
    }
    println!("selftest ok: virtual clock effective; window-partition oracle agrees with brute force on {checked} inputs");
    0
}

