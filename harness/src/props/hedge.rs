//! C12: a hedged call starts at most max_hedged_attempts inner calls, respects the configured
//! delays between starts, resolves with the first success as soon as it is available, and reports
//! all-attempts-failed only when every attempt it can start has been started and has failed.

use crate::runner::{Property, Report, Tier};
use crate::sim::{self, Ev, Log, Outcome, Req, Sim, TaskState};
use crate::svc::{Lat, Out, Resp, SErr, Scripted, Step};
use proptest::prelude::*;
use serde::{Deserialize, Serialize};
use serde_json::json;
use std::collections::HashMap;
use std::time::Duration;
use tower::{Layer, Service};
use tower_resilience_hedge::{HedgeError, HedgeLayer};

#[derive(Clone, Debug, Serialize, Deserialize, PartialEq)]
pub enum Delay {
    Fixed(u64),
    /// builder.no_delay()
    Immediate,
    /// delay_fn: delay (ms) before attempt k = table[k-1] (last entry repeats)
    PerAttempt(Vec<u64>),
    /// builder.delay(Duration::from_micros(us)) with 0 < us < 1000: not "no delay"; on the
    /// whole-millisecond grid of the virtual clock the next attempt starts 1 ms later at the earliest
    FixedMicros(u32),
}

#[derive(Clone, Debug, Serialize, Deserialize)]
pub struct HedgeCase {
    pub max: usize,
    pub delay: Delay,
    /// per attempt: (latency ms, ok)
    pub attempts: Vec<(u64, bool)>,
    pub order: Vec<u8>,
    /// the virtual clock advances in steps of this many ms (1 = every instant is observed; larger
    /// steps make the hedging future see its timers late, as on a stalled executor)
    #[serde(default = "one")]
    pub step_ms: u64,
    /// call max_hedged_attempts() on the builder after the delay setter instead of before it
    #[serde(default)]
    pub max_last: bool,
    /// every fresh clone of the wrapped service needs this many ms before it is ready (0 = always
    /// ready); the instance the caller polled ready is ready at once
    #[serde(default)]
    pub clone_ready_ms: u64,
    /// attempts use up the cooperative budget in the poll they complete in
    #[serde(default)]
    pub drain_budget: bool,
    /// the response future is obtained from call() this many ms before it is first polled; the
    /// primary attempt starts at that first poll and the delays count from the attempts' starts
    #[serde(default)]
    pub poll_delay: u64,
    /// at every instant the attempts (tasks on the runtime) run before the hedging future is
    /// polled, so that a result and a due timer are seen in the same poll
    #[serde(default)]
    pub spawned_first: bool,
    /// an event listener is registered on the layer
    #[serde(default)]
    pub listeners: bool,
    /// instead of a simulated history: parallel-mode calls on a multi-threaded runtime, where
    /// attempts run (and fail) on other worker threads while the fan-out is still going on
    #[serde(default)]
    pub stress: Option<HedgeStress>,
    /// the service and the layer are dropped as soon as call() has returned the response future
    /// (`svc.oneshot(req)`)
    #[serde(default)]
    pub drop_service: bool,
    /// bit k set: the k-th clone made of the wrapped service fails its readiness check (an
    /// attempt that cannot even start counts as a failed attempt, nothing more)
    #[serde(default)]
    pub fail_clone_mask: u8,
}

#[derive(Clone, Debug, Serialize, Deserialize)]
pub struct HedgeStress {
    pub max: usize,
    /// the first `fail_first` inner calls of every request fail at once, the others succeed
    pub fail_first: usize,
    pub workers: usize,
    pub iters: u32,
    /// a listener spends roughly this many loop iterations on every hedge-started event
    pub spin: u32,
    /// 0 no_delay(), 1 delay(ZERO), 2 delay_fn always zero
    pub zero_kind: u8,
}

fn stress_strategy(tier: Tier) -> BoxedStrategy<HedgeCase> {
    let iters = match tier {
        Tier::Quick => 600u32,
        Tier::Thorough => 6_000,
    };
    (2usize..=5, 0usize..=6, 2usize..=4, prop_oneof![Just(0u32), Just(2_000u32), Just(20_000u32), 0u32..=50_000], 0u8..3)
        .prop_map(move |(max, fail_first, workers, spin, zero_kind)| HedgeCase {
            max,
            delay: Delay::Immediate,
            attempts: vec![],
            order: vec![],
            step_ms: 1,
            max_last: false,
            clone_ready_ms: 0,
            drain_budget: false,
            poll_delay: 0,
            spawned_first: false,
            listeners: true,
            drop_service: false,
            fail_clone_mask: 0,
            stress: Some(HedgeStress {
                max,
                fail_first: fail_first.min(max),
                workers,
                iters,
                spin,
                zero_kind,
            }),
        })
        .boxed()
}

/// Parallel-mode hedging on a multi-threaded runtime (real worker threads; see crate::stress for
/// what that means for replay). Oracle per request: at most `max` inner calls; if fewer than `max`
/// of them are scripted to fail the call succeeds with a successful attempt's response; otherwise
/// it reports all-attempts-failed after exactly `max` inner calls.
pub fn run_hedge_stress(st: &HedgeStress) -> Report {
    use std::sync::atomic::{AtomicU32, Ordering};
    use std::sync::Arc;
    let mut r = Report::default();
    let n = st.iters as usize;
    let attempts: Arc<Vec<AtomicU32>> = Arc::new((0..n).map(|_| AtomicU32::new(0)).collect());
    let at2 = attempts.clone();
    let fail_first = st.fail_first as u32;
    let inner = tower::service_fn(move |req: Req| {
        let k = at2[req.id as usize].fetch_add(1, Ordering::SeqCst);
        async move {
            if k < fail_first {
                Err(SErr { code: 5, serial: k as u64 })
            } else {
                Ok(Resp { serial: k as u64, req })
            }
        }
    });
    struct Slow(u32);
    impl tower_resilience_core::EventListener<tower_resilience_hedge::HedgeEvent> for Slow {
        fn on_event(&self, event: &tower_resilience_hedge::HedgeEvent) {
            if matches!(event, tower_resilience_hedge::HedgeEvent::HedgeStarted { .. }) {
                crate::stress::spin(self.0);
            }
        }
    }
    let b = HedgeLayer::builder().name("stress").max_hedged_attempts(st.max).on_event(Slow(st.spin));
    let layer = match st.zero_kind {
        0 => b.no_delay().build(),
        1 => b.delay(Duration::ZERO).build(),
        _ => b.delay_fn(|_| Duration::ZERO).build(),
    };
    let mut svc = layer.layer(inner);
    let base_ns = crate::vclock::now_ns();
    let rt = tokio::runtime::Builder::new_multi_thread()
        .worker_threads(st.workers)
        .enable_time()
        .on_thread_start(move || crate::vclock::advance_ns(base_ns))
        .build()
        .expect("runtime");
    let mut bad: Option<String> = None;
    let mut all_failed = 0usize;
    for i in 0..n {
        let req = Req {
            id: i as u32,
            key: 0,
            tag: 0,
        };
        let res = rt.block_on(async {
            futures::future::poll_fn(|cx| svc.poll_ready(cx)).await.ok();
            svc.call(req).await
        });
        let made = attempts[i].load(Ordering::SeqCst) as usize;
        let verdict = match &res {
            Ok(resp) if st.fail_first < st.max && resp.serial >= st.fail_first as u64 && resp.req.id == i as u32 => None,
            Err(HedgeError::AllAttemptsFailed(_)) if st.fail_first >= st.max => {
                all_failed += 1;
                if made == st.max {
                    None
                } else {
                    Some(format!("all-attempts-failed reported after {made} inner calls, max_hedged_attempts = {}", st.max))
                }
            }
            Err(HedgeError::AllAttemptsFailed(_)) => Some(format!(
                "all-attempts-failed reported after only {made} of max_hedged_attempts = {} attempts were started ({} of a request's inner calls fail, the others succeed)",
                st.max, st.fail_first
            )),
            other => Some(format!("resolved with {:?}", other.as_ref().map(|r| r.serial).map_err(|e| e.to_string()))),
        };
        if made > st.max && bad.is_none() {
            bad = Some(format!("request {i}: {made} inner calls, max_hedged_attempts = {}", st.max));
        }
        if let (Some(m), None) = (verdict, &bad) {
            bad = Some(format!("request {i}: {m}"));
        }
        if bad.is_some() {
            break;
        }
    }
    drop(rt);
    if let Some(m) = bad {
        r.fail(format!(
            "parallel-mode hedging on a runtime with {} worker threads (listener spending ~{} iterations per hedge start): {m}",
            st.workers, st.spin
        ));
    }
    r.nontrivial = true;
    r.class("multi_threaded_runtime_stress");
    r.trace = json!({"all_failed": all_failed, "stress": st});
    r
}

fn one() -> u64 {
    1
}

fn case_strategy(_tier: Tier) -> BoxedStrategy<HedgeCase> {
    let delay = prop_oneof![
        3 => prop_oneof![Just(10u64), (1u64..=10).prop_map(|k| k * 10), 1u64..=100].prop_map(Delay::Fixed),
        1 => Just(Delay::Fixed(0)),
        1 => Just(Delay::Immediate),
        1 => prop_oneof![Just(1u32), Just(500u32), Just(999u32), 1u32..=999].prop_map(Delay::FixedMicros),
        3 => prop::collection::vec(prop_oneof![2 => Just(0u64), 2 => (1u64..=5).prop_map(|k| k * 10), 1 => 1u64..=60], 1..=4)
            .prop_map(Delay::PerAttempt),
        // "hedge k times, then stop": the remaining delays are Duration::MAX
        1 => prop::collection::vec(prop_oneof![1 => Just(0u64), 3 => (1u64..=5).prop_map(|k| k * 10)], 1..=2)
            .prop_map(|mut v| {
                v.push(u64::MAX);
                Delay::PerAttempt(v)
            }),
    ];
    let lat = prop_oneof![
        2 => Just(0u64),
        4 => (1u64..=12).prop_map(|k| k * 10),
        3 => 0u64..=300,
    ];
    (
        1usize..=5,
        delay,
        prop::collection::vec((lat, prop::bool::weighted(0.45)), 5),
        prop::collection::vec(any::<u8>(), 0..=8),
        prop_oneof![6 => Just(1u64), 1 => Just(3u64), 1 => Just(7u64), 1 => Just(25u64), 1 => Just(60u64), 1 => 2u64..=120],
        any::<bool>(),
        (
            prop_oneof![3 => Just(0u64), 1 => 1u64..=40, 1 => (1u64..=8).prop_map(|k| k * 10)],
            prop::bool::weighted(0.2),
            prop_oneof![4 => Just(0u64), 1 => 1u64..=120, 1 => (1u64..=10).prop_map(|k| k * 10)],
            prop::bool::weighted(0.35),
            prop::bool::weighted(0.3),
            prop::bool::weighted(0.3),
            prop_oneof![4 => Just(0u8), 1 => prop_oneof![Just(2u8), Just(4u8), Just(6u8), any::<u8>()]],
        ),
    )
        .prop_map(|(max, delay, attempts, order, step_ms, max_last, (clone_ready_ms, drain_budget, poll_delay, spawned_first, listeners, drop_service, fail_clone_mask))| HedgeCase {
            max,
            delay,
            attempts,
            order,
            step_ms,
            max_last,
            // coarse clock steps and paced readiness are generated separately
            clone_ready_ms: if step_ms > 1 { 0 } else { clone_ready_ms },
            drain_budget,
            poll_delay,
            spawned_first,
            listeners,
            stress: None,
            drop_service,
            fail_clone_mask,
        })
        .boxed()
}

fn map_outcome(r: Result<Resp, HedgeError<SErr>>) -> Outcome {
    match r {
        Ok(resp) => Outcome::Ok {
            serial: resp.serial,
            req: resp.req,
        },
        Err(HedgeError::Inner(e)) => Outcome::Inner {
            code: e.code,
            serial: e.serial,
        },
        Err(HedgeError::AllAttemptsFailed(_)) => Outcome::Layer("AllAttemptsFailed".into()),
    }
}

pub struct Verdict {
    pub violations: Vec<String>,
    pub classes: Vec<&'static str>,
    pub nontrivial: bool,
    pub log: Vec<Ev>,
}

fn delay_ms(d: &Delay, k: usize) -> u64 {
    match d {
        Delay::Fixed(ms) => *ms,
        Delay::Immediate => 0,
        Delay::FixedMicros(_) => 1,
        Delay::PerAttempt(v) => *v.get(k - 1).or(v.last()).unwrap_or(&0),
    }
}

pub fn run_hedge(case: &HedgeCase) -> Verdict {
    sim::run_case(interp(case))
}

async fn interp(case: &HedgeCase) -> Verdict {
    let mut violations = vec![];
    let log = Log::new();
    let mut sim = Sim::new(log.clone(), case.order.clone());
    sim.spawned_first = case.spawned_first;
    let mut table: HashMap<u32, Vec<Step>> = HashMap::new();
    table.insert(
        0,
        case.attempts
            .iter()
            .map(|&(lat, ok)| Step {
                lat: if case.drain_budget { Lat::MsDrain(lat) } else { Lat::Ms(lat) },
                out: if ok { Out::Ok } else { Out::Err(5) },
            })
            .collect(),
    );
    let inner = Scripted::from_table(log.clone(), table, Step::err(0, 5));
    let mut b = HedgeLayer::builder().name("vcheck");
    if !case.max_last {
        b = b.max_hedged_attempts(case.max);
    }
    b = match &case.delay {
        Delay::Fixed(ms) => b.delay(Duration::from_millis(*ms)),
        Delay::Immediate => b.no_delay(),
        Delay::FixedMicros(us) => b.delay(Duration::from_micros(*us as u64)),
        Delay::PerAttempt(v) => {
            let v = v.clone();
            b.delay_fn(move |k| {
                match *v.get(k.saturating_sub(1)).or(v.last()).unwrap_or(&0) {
                    u64::MAX => Duration::MAX,
                    ms => Duration::from_millis(ms),
                }
            })
        }
    };
    if case.max_last {
        b = b.max_hedged_attempts(case.max);
    }
    if case.listeners {
        struct Quiet;
        impl tower_resilience_core::EventListener<tower_resilience_hedge::HedgeEvent> for Quiet {
            fn on_event(&self, _event: &tower_resilience_hedge::HedgeEvent) {}
        }
        b = b.on_event(Quiet);
    }
    let layer = b.build();
    let wrapped = crate::svc::SlowClones::failing(inner.clone(), case.clone_ready_ms, case.fail_clone_mask);
    let ready_failures = wrapped.ready_failures.clone();
    let mut svc = layer.layer(wrapped);
    let req = Req {
        id: 0,
        key: 3,
        tag: 0xEDCE,
    };
    let _ = futures::future::poll_fn(|cx| svc.poll_ready(cx)).await;
    let fut = svc.call(req.clone());
    let mut keep_alive = Some((svc, layer));
    if case.drop_service {
        keep_alive = None;
    }
    // the future may sit un-polled for a while (collected first, driven later)
    if case.poll_delay > 0 {
        sim.advance(case.poll_delay).await;
    }
    let task = sim.spawn_call(fut, map_outcome);
    sim.settle().await;
    // u64::MAX in a per-attempt table stands for Duration::MAX ("no further hedge"): such an
    // attempt must never start within the horizon
    let total_delay: u64 = (1..case.max)
        .map(|k| delay_ms(&case.delay, k))
        .filter(|&d| d != u64::MAX)
        .sum();
    // every hedge may be seen up to one step late
    let horizon = total_delay + 320 + (case.max as u64 + 2) * case.step_ms + case.clone_ready_ms;
    let step = case.step_ms.max(1);
    let mut elapsed = 0;
    while elapsed < horizon {
        // a step larger than 1 ms: timers that fell due in between are all seen late, together
        crate::vclock::advance_ms(step - 1);
        sim.begin_instant().await;
        sim.settle().await;
        elapsed += step;
    }

    let snap = log.snapshot();
    // attempts in start order: (start t, serial, latency, ok)
    let mut starts: Vec<(u64, u64)> = vec![];
    for e in &snap {
        if let Ev::Enter { t, serial, req: r, .. } = e {
            starts.push((*t, *serial));
            if *r != req {
                violations.push(format!(
                    "attempt {} was given request {r:?} instead of the caller's request",
                    starts.len() - 1
                ));
            }
        }
    }
    let nstart = starts.len();
    // attempts that could not start because their clone's readiness check failed
    let nfail = ready_failures.load(std::sync::atomic::Ordering::SeqCst) as usize;
    if nstart == 0 {
        violations.push("the inner service was never called".into());
    }
    if nstart + nfail > case.max {
        violations.push(format!(
            "{nstart} inner calls started and {nfail} attempts refused by their clone's readiness, max_hedged_attempts={}",
            case.max
        ));
    }
    let all_zero = (1..case.max).all(|k| delay_ms(&case.delay, k) == 0);
    // (with attempts that never started in between, the k-th inner call is not hedge number k)
    for k in 1..(if nfail == 0 { nstart } else { 0 }) {
        let d = if k < case.max { delay_ms(&case.delay, k) } else { 0 };
        if starts[k].0 < starts[k - 1].0.saturating_add(d) {
            violations.push(format!(
                "attempt {k} started at t={} only {} ms after attempt {} (t={}), configured delay before attempt {k} is {d} ms",
                starts[k].0,
                starts[k].0 - starts[k - 1].0,
                k - 1,
                starts[k - 1].0
            ));
        }
    }
    if all_zero && case.max > 1 && nstart > 0 {
        // parallel mode: everything starts at once (hedges, which run on fresh clones, as soon as
        // those are ready: all of them in the same instant)
        let hedge_t = starts[0].0 + case.clone_ready_ms;
        if nstart + nfail != case.max || starts.iter().skip(1).any(|s| s.0 != hedge_t) {
            violations.push(format!(
                "parallel mode: expected {} attempts, the hedges all at t={}, saw starts {:?}",
                case.max,
                hedge_t,
                starts.iter().map(|s| s.0).collect::<Vec<_>>()
            ));
        }
    }
    // per-attempt completion as scripted
    // completion of each started attempt as actually observed (instant, ok); an attempt still
    // running at the horizon cannot happen with latencies <= 300 ms
    let fin = |k: usize| -> (u64, bool) {
        snap.iter()
            .find_map(|e| match e {
                Ev::Done { t, serial, ok } if *serial == starts[k].1 => Some((*t, *ok)),
                _ => None,
            })
            .unwrap_or_else(|| {
                let (lat, ok) = case.attempts[k.min(case.attempts.len() - 1)];
                (starts[k].0 + lat, ok)
            })
    };
    let resolve = snap.iter().find_map(|e| match e {
        Ev::Resolve { t, task: tk, out } if *tk == task => Some((*t, out.clone())),
        _ => None,
    });
    let mut fail_while_other_running = false;
    let mut success_and_start_same_instant = false;
    for k in 0..nstart {
        let (ft, ok) = fin(k);
        if !ok {
            for j in 0..nstart {
                if j != k && starts[j].0 <= ft && fin(j).0 > ft {
                    fail_while_other_running = true;
                }
            }
        } else if starts.iter().any(|s| s.0 == ft) && nstart > 1 {
            success_and_start_same_instant = true;
        }
    }
    match &resolve {
        None => {
            // with a Duration::MAX delay ahead and no success so far the call rightly keeps waiting
            let waits_for_a_hedge_that_never_comes = (1..case.max)
                .any(|k| delay_ms(&case.delay, k) == u64::MAX)
                && nstart + nfail < case.max
                && (0..nstart).all(|k| !fin(k).1);
            if sim.state(task) == TaskState::Live && !waits_for_a_hedge_that_never_comes {
                violations.push(format!(
                    "the hedged call had not resolved {} ms after it began although every scripted attempt finishes within 300 ms of its start ({} attempts started)",
                    horizon, nstart
                ));
            }
        }
        Some((rt, Outcome::Ok { serial, req: rq })) => {
            let idx = starts.iter().position(|s| s.1 == *serial);
            match idx {
                None => violations.push(format!(
                    "the call returned a response (serial {serial}) that no started attempt produced"
                )),
                Some(k) => {
                    let (ft, ok) = fin(k);
                    if !ok || ft != *rt {
                        violations.push(format!(
                            "the call resolved at t={rt} with the response of attempt {k}, which completes at t={ft} (ok={ok})"
                        ));
                    }
                }
            }
            if *rq != req {
                violations.push("response does not echo the caller's request".into());
            }
            // earliest success among the attempts started no later than the resolution
            let earliest = (0..nstart)
                .filter(|&k| fin(k).1)
                .map(|k| fin(k).0)
                .min();
            if earliest.map_or(true, |e| e != *rt) && earliest.map_or(false, |e| e < *rt) {
                violations.push(format!(
                    "first successful attempt was available at t={:?} but the call resolved at t={rt}",
                    earliest
                ));
            }
        }
        Some((rt, Outcome::Layer(_))) => {
            if nstart + nfail != case.max {
                violations.push(format!(
                    "all-attempts-failed reported at t={rt} after starting only {nstart} of max_hedged_attempts={} ({nfail} more refused by their clone's readiness check)",
                    case.max
                ));
            }
            for k in 0..nstart {
                let (ft, ok) = fin(k);
                if ok {
                    violations.push(format!(
                        "all-attempts-failed reported at t={rt} although attempt {k} succeeds at t={ft}"
                    ));
                } else if ft > *rt {
                    violations.push(format!(
                        "all-attempts-failed reported at t={rt} while attempt {k} was still running (it fails at t={ft})"
                    ));
                }
            }
        }
        Some((rt, other)) => {
            // HedgeError::Inner: only legitimate as a pass-through of... nothing in this layer
            violations.push(format!("unexpected outcome at t={rt}: {other:?}"));
        }
    }
    for (task, msg) in &sim.unexpected_panics {
        violations.push(format!("unexpected panic in task {task}: {msg}"));
    }
    let mut classes = vec![];
    if fail_while_other_running {
        classes.push("attempt_fails_while_another_runs");
    }
    if success_and_start_same_instant {
        classes.push("success_and_start_in_one_instant");
    }
    if all_zero && case.max > 1 {
        classes.push("parallel_mode");
    }
    if matches!(&case.delay, Delay::PerAttempt(v) if v.first() == Some(&0) && v.iter().any(|&d| d > 0)) {
        classes.push("zero_first_delay_then_nonzero");
    }
    if matches!(resolve, Some((_, Outcome::Layer(_)))) {
        classes.push("all_attempts_failed");
    }
    if nstart > 1 {
        classes.push("hedge_started");
    }
    if case.step_ms > 1 {
        classes.push("coarse_clock_steps");
    }
    if case.listeners {
        classes.push("event_listeners_registered");
    }
    if case.drop_service {
        classes.push("service_dropped_right_after_call");
    }
    if nfail > 0 {
        classes.push("hedge_clone_failed_its_readiness_check");
    }
    let _ = &keep_alive;
    if case.spawned_first {
        classes.push("attempts_run_before_the_hedging_future_each_instant");
    }
    if case.poll_delay > 0 {
        classes.push("first_poll_later_than_call");
    }
    if case.clone_ready_ms > 0 {
        classes.push("fresh_clones_need_time_to_become_ready");
    }
    Verdict {
        violations,
        nontrivial: fail_while_other_running || success_and_start_same_instant,
        classes,
        log: snap,
    }
}

pub struct C12;
impl Property for C12 {
    type Case = HedgeCase;
    fn id(&self) -> &'static str {
        "C12"
    }
    fn strategy(&self, tier: Tier) -> BoxedStrategy<HedgeCase> {
        prop_oneof![2000 => case_strategy(tier), 1 => stress_strategy(tier)].boxed()
    }
    fn budget(&self, tier: Tier) -> (u32, usize) {
        match tier {
            Tier::Quick => (300_000, 8),
            Tier::Thorough => (6_000_000, 16),
        }
    }
    fn run(&self, case: &HedgeCase) -> Report {
        if let Some(st) = &case.stress {
            return run_hedge_stress(st);
        }
        let v = run_hedge(case);
        let mut r = Report::default();
        if let Some(m) = v.violations.first() {
            r.fail(m.clone());
        }
        r.nontrivial = v.nontrivial;
        r.classes = v.classes.clone();
        let evs: Vec<_> = v.log.iter().take(40).collect();
        r.trace = json!({ "events": evs, "events_total": v.log.len() });
        r
    }
    fn rule(&self) -> String {
        "proptest-generated cases: max_hedged_attempts 1-5, delay in {fixed 1-100 ms, fixed zero, no_delay(), per-attempt function with zeros}, per-attempt latency 0-300 ms and ok/error; virtual clock; about one case in 2000 is instead a stress of parallel-mode hedging on a multi-threaded runtime (2-4 workers, 600/6000 requests whose first k inner calls fail at once, a listener that spends some time per hedge start). Oracle (constraints, not one schedule): inner starts <= max, each with the caller's request; start(k) - start(k-1) >= delay(k); all starts in one instant when every delay is zero; Ok(v) => v is the serial of a started successful attempt delivered at its completion instant, and no started attempt succeeded earlier; all-attempts-failed => exactly max attempts started and each failed no later than the report; the call resolves within the horizon.Also generated: an event listener, attempts (spawned tasks) running before the hedging future at each instant, the service dropped right after call(), clones of the wrapped service whose readiness check fails (such an attempt counts as failed and started nothing). Non-trivial: an attempt fails while another is still running, or a success and an attempt start share an instant; distinct by hash of the case".into()
    }
    fn assumptions(&self) -> Vec<String> {
        vec![
            "the error payload carried by AllAttemptsFailed is not constrained by the statement and not checked".into(),
            "starting a hedge later than its delay is allowed by the statement".into(),
        ]
    }
}
