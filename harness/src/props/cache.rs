//! C10: cache hits return the latest unexpired value of the right key without calling the inner
//! service; misses call it exactly once; errors are never cached; the size bound and the eviction
//! policy hold. Generated histories are compared with a reference cache kept as a set of worlds.

use crate::runner::{Property, Report, Tier};
use crate::sim::{self, Ev, Log, Outcome, Req, Sim, TaskState};
use crate::svc::{Lat, Out, Resp, SErr, Scripted, Step};
use proptest::prelude::*;
use serde::{Deserialize, Serialize};
use serde_json::json;
use std::time::Duration;
use tower::{Layer, Service};
use tower_resilience_cache::{CacheError, CacheLayer, EvictionPolicy, SharedCacheLayer};

#[derive(Clone, Debug, Serialize, Deserialize, PartialEq)]
pub enum COp {
    /// request for `key`; inner (if reached) answers after `lat` ms with ok/error
    Get { key: u32, ok: bool, lat: u64, via: u8 },
    Adv(CAdv),
}

#[derive(Clone, Copy, Debug, Serialize, Deserialize, PartialEq)]
pub enum CAdv {
    Ms(u64),
    /// ttl + delta
    Ttl(i8),
}

#[derive(Clone, Debug, Serialize, Deserialize)]
pub struct CacheCase {
    /// 0 LRU, 1 LFU, 2 FIFO
    pub policy: u8,
    pub max_size: usize,
    pub ttl: Option<u64>,
    /// 0 private layer / one service, 1 private layer / cloned service, 2 two services of one SharedCacheLayer
    pub mode: u8,
    pub ops: Vec<COp>,
    /// builder call order / decoy setters (bits 0-1 rotation, bit 2 decoys, bit 3 key extractor first)
    #[serde(default)]
    pub setter_order: u8,
    /// instead of a simulated history: handles on one warm store are read from real OS threads
    /// (see crate::stress)
    #[serde(default)]
    pub stress: Option<CacheStress>,
}

#[derive(Clone, Debug, Serialize, Deserialize)]
pub struct CacheStress {
    pub policy: u8,
    pub shared: bool,
    pub nkeys: u32,
    /// capacity above the number of keys by this much (nothing is ever evicted)
    pub spare: usize,
    pub threads: usize,
    pub iters: u32,
}

fn stress_strategy(tier: Tier) -> BoxedStrategy<CacheCase> {
    let iters = match tier {
        Tier::Quick => 4_000u32,
        Tier::Thorough => 30_000,
    };
    (0u8..3, any::<bool>(), 1u32..=6, 0usize..=2, 2usize..=8)
        .prop_map(move |(policy, shared, nkeys, spare, threads)| CacheCase {
            policy,
            max_size: nkeys as usize + spare,
            ttl: None,
            mode: if shared { 2 } else { 1 },
            ops: vec![],
            setter_order: 0,
            stress: Some(CacheStress {
                policy,
                shared,
                nkeys,
                spare,
                threads,
                iters,
            }),
        })
        .boxed()
}

/// Real-thread stress of one cache store: every key is stored once (sequentially), then several
/// threads read all keys over and over through their own handles. Nothing expires, nothing is
/// evicted (capacity >= number of keys), so every read is a hit: it returns the stored response
/// and does not call the wrapped service.
pub fn run_cache_stress(st: &CacheStress) -> Report {
    use std::future::Future;
    use std::sync::atomic::{AtomicU64, AtomicUsize, Ordering};
    use std::sync::Arc;
    let mut r = Report::default();
    let inner_calls = Arc::new(AtomicU64::new(0));
    let ic = inner_calls.clone();
    let inner = tower::service_fn(move |req: Req| {
        let serial = ic.fetch_add(1, Ordering::SeqCst) + 1;
        async move { Ok::<Resp, SErr>(Resp { serial, req }) }
    });
    let policy = match st.policy {
        0 => EvictionPolicy::Lru,
        1 => EvictionPolicy::Lfu,
        _ => EvictionPolicy::Fifo,
    };
    let cap = st.nkeys as usize + st.spare;
    let waker = futures::task::noop_waker();
    let mut cx = std::task::Context::from_waker(&waker);
    let wrong = Arc::new(AtomicUsize::new(0));
    let pending = Arc::new(AtomicUsize::new(0));
    let nkeys = st.nkeys;
    let iters = st.iters;
    macro_rules! go {
        ($mk:expr) => {{
            // one handle per thread plus the one used for warming
            let mut warm = $mk;
            let mut stored = vec![0u64; nkeys as usize];
            for k in 0..nkeys {
                let _ = warm.poll_ready(&mut cx);
                let mut f = Box::pin(warm.call(Req { id: k, key: k, tag: 1 }));
                if let std::task::Poll::Ready(Ok(resp)) = f.as_mut().poll(&mut cx) {
                    stored[k as usize] = resp.serial;
                }
            }
            let stored = Arc::new(stored);
            let handles = std::sync::Mutex::new((0..st.threads).map(|_| $mk).collect::<Vec<_>>());
            let (w2, p2, s2) = (wrong.clone(), pending.clone(), stored.clone());
            crate::stress::run_threads(st.threads, move |t| {
                let mut svc = handles.lock().unwrap().pop().expect("one handle per thread");
                let waker = futures::task::noop_waker();
                let mut cx = std::task::Context::from_waker(&waker);
                for i in 0..iters {
                    let k = (t as u32 * 7 + i) % nkeys;
                    let _ = svc.poll_ready(&mut cx);
                    let mut f = Box::pin(svc.call(Req { id: 1000 + i, key: k, tag: 1 }));
                    match f.as_mut().poll(&mut cx) {
                        std::task::Poll::Ready(Ok(resp)) if resp.serial == s2[k as usize] => {}
                        std::task::Poll::Ready(_) => {
                            w2.fetch_add(1, Ordering::Relaxed);
                        }
                        std::task::Poll::Pending => {
                            p2.fetch_add(1, Ordering::Relaxed);
                        }
                    }
                }
            })
        }};
    }
    let panicked = if st.shared {
        let layer = SharedCacheLayer::<Req, CKey, Resp>::builder()
            .max_size(cap)
            .eviction_policy(policy)
            .key_extractor(|r: &Req| CKey(r.key))
            .build();
        go!(layer.layer(inner.clone()))
    } else {
        let layer = CacheLayer::<Req, CKey>::builder()
            .max_size(cap)
            .eviction_policy(policy)
            .key_extractor(|r: &Req| CKey(r.key))
            .build();
        let base = layer.layer(inner.clone());
        go!(base.clone())
    };
    let calls = inner_calls.load(Ordering::SeqCst);
    let what = format!(
        "{} threads x {} reads of {} warm keys through handles on one {} store (capacity {}, no TTL)",
        st.threads,
        st.iters,
        st.nkeys,
        if st.shared { "shared-layer" } else { "cloned-service" },
        cap
    );
    if calls != st.nkeys as u64 {
        r.fail(format!(
            "{what}: the wrapped service was called {calls} times; each key was stored by its first request, every later read is a hit and calls it not at all ({} expected)",
            st.nkeys
        ));
    }
    let (w, p) = (wrong.load(Ordering::SeqCst), pending.load(Ordering::SeqCst));
    if w != 0 || p != 0 {
        r.fail(format!(
            "{what}: {w} reads did not return the response stored for their key, {p} were not answered at their first poll"
        ));
    }
    if let Some(pm) = panicked {
        r.fail(format!("a cache call panicked on a stress thread: {pm}"));
    }
    r.nontrivial = true;
    r.class("real_thread_stress");
    r.trace = json!({"inner_calls": calls, "wrong": w, "pending": p, "stress": st});
    r
}

fn case_strategy(tier: Tier) -> BoxedStrategy<CacheCase> {
    let max_ops = match tier {
        Tier::Quick => 80usize,
        Tier::Thorough => 500,
    };
    let op = prop_oneof![
        12 => (0u32..7, prop::bool::weighted(0.85), prop_oneof![3 => Just(0u64), 2 => 1u64..=30], 0u8..2)
            .prop_map(|(key, ok, lat, via)| COp::Get { key, ok, lat, via }),
        3 => (1u64..=40).prop_map(|m| COp::Adv(CAdv::Ms(m))),
        2 => (-1i8..=1).prop_map(|d| COp::Adv(CAdv::Ttl(d))),
    ];
    (
        0u8..3,
        1usize..=4,
        prop_oneof![4 => Just(None), 6 => (20u64..=100).prop_map(Some), 2 => Just(Some(100_000u64)), 1 => Just(Some(0u64)), 1 => Just(Some(1u64))],
        0u8..3,
        2u32..=7,
        prop::collection::vec(op, 0..=max_ops),
        // bit 5: event listeners registered
        prop_oneof![2 => 0u8..32, 1 => 32u8..64],
        // a hot key: a run of 250-300 immediate requests for one key, spliced in at a position
        prop_oneof![30 => Just(None), 1 => (0usize..40, 0u32..7, 250u32..=300).prop_map(Some)],
    )
        .prop_map(|(policy, max_size, ttl, mode, nkeys, ops, setter_order, hot)| {
            let mut ops: Vec<COp> = ops
                .into_iter()
                .map(|o| match o {
                    COp::Get { key, ok, lat, via } => COp::Get {
                        key: key % nkeys,
                        ok,
                        lat,
                        via,
                    },
                    o => o,
                })
                .collect();
            // a hot key only without a TTL in the way (the run takes no virtual time anyway) and
            // with room for other keys next to it
            if let (Some((pos, key, n)), true) = (hot, max_size >= 2) {
                let at = pos.min(ops.len());
                let run = (0..n).map(|_| COp::Get {
                    key: key % nkeys,
                    ok: true,
                    lat: 0,
                    via: 0,
                });
                ops.splice(at..at, run);
            }
            CacheCase {
                policy,
                max_size,
                ttl,
                mode,
                setter_order,
                stress: None,
                ops,
            }
        })
        .boxed()
}

// ------------------------------------------------------------------ reference cache (worlds)

#[derive(Clone, Debug, PartialEq)]
struct Entry {
    key: u32,
    serial: u64,
    inserted: u64,
    /// LRU: sequence number of the last read or write
    used: u64,
    /// LFU: access count
    freq: u64,
    /// FIFO: sequence number of the first insertion
    born: u64,
}

#[derive(Clone, Debug, PartialEq)]
struct World {
    /// LFU reading: an update of a present key counts as an access
    lfu_update_counts: bool,
    entries: Vec<Entry>,
}

struct Cfg {
    policy: u8,
    cap: usize,
    ttl: Option<u64>,
}

#[derive(Default)]
struct Marks {
    eviction: bool,
    expiry_reinsert: bool,
    update_present: bool,
    lfu_tie: bool,
    ttl_tie: bool,
    expired_keys: Vec<u32>,
}

impl World {
    fn expired(cfg: &Cfg, e: &Entry, now: u64) -> bool {
        cfg.ttl.map_or(false, |t| now - e.inserted > t)
    }

    /// Some(serial) = hit, None = miss. Returns every world the statement allows.
    fn lookup(mut self, cfg: &Cfg, key: u32, now: u64, seq: u64, m: &mut Marks) -> Vec<(World, Option<u64>)> {
        let Some(pos) = self.entries.iter().position(|e| e.key == key) else {
            return vec![(self, None)];
        };
        let e = self.entries[pos].clone();
        if Self::expired(cfg, &e, now) {
            self.entries.remove(pos);
            if !m.expired_keys.contains(&key) {
                m.expired_keys.push(key);
            }
            return vec![(self, None)];
        }
        let tie = cfg.ttl.map_or(false, |t| now - e.inserted == t);
        let mut out = vec![];
        if tie {
            // exactly at the TTL: a miss (and removal) is as acceptable as a hit
            m.ttl_tie = true;
            let mut w = self.clone();
            w.entries.remove(pos);
            out.push((w, None));
        }
        self.entries[pos].used = seq;
        self.entries[pos].freq += 1;
        out.push((self, Some(e.serial)));
        out
    }

    fn store(mut self, cfg: &Cfg, key: u32, serial: u64, now: u64, seq: u64, m: &mut Marks) -> Vec<World> {
        if let Some(pos) = self.entries.iter().position(|e| e.key == key) {
            // update of a present key
            m.update_present = true;
            let mut out = vec![];
            if Self::expired(cfg, &self.entries[pos], now) {
                // an implementation may already have dropped the expired entry: fresh insert
                let mut w = self.clone();
                w.entries.remove(pos);
                w.entries.push(Entry {
                    key,
                    serial,
                    inserted: now,
                    used: seq,
                    freq: 1,
                    born: seq,
                });
                out.push(w);
            }
            let e = &mut self.entries[pos];
            e.serial = serial;
            e.inserted = now;
            e.used = seq;
            if self.lfu_update_counts {
                e.freq += 1;
            }
            out.push(self);
            return out;
        }
        if m.expired_keys.contains(&key) {
            m.expiry_reinsert = true;
        }
        let fresh = Entry {
            key,
            serial,
            inserted: now,
            used: seq,
            freq: 1,
            born: seq,
        };
        if self.entries.len() < cfg.cap {
            self.entries.push(fresh);
            return vec![self];
        }
        m.eviction = true;
        // at capacity: candidates = purge expired entries first / or not
        let mut bases = vec![self.clone()];
        if self.entries.iter().any(|e| Self::expired(cfg, e, now)) {
            let mut purged = self.clone();
            purged.entries.retain(|e| !Self::expired(cfg, e, now));
            bases.push(purged);
        }
        let mut out = vec![];
        for mut b in bases {
            if b.entries.len() < cfg.cap {
                b.entries.push(fresh.clone());
                out.push(b);
                continue;
            }
            let victims: Vec<usize> = match cfg.policy {
                0 => {
                    let v = b.entries.iter().enumerate().min_by_key(|(_, e)| e.used).map(|(i, _)| i).unwrap();
                    vec![v]
                }
                1 => {
                    let mf = b.entries.iter().map(|e| e.freq).min().unwrap();
                    let v: Vec<usize> = b.entries.iter().enumerate().filter(|(_, e)| e.freq == mf).map(|(i, _)| i).collect();
                    if v.len() > 1 {
                        m.lfu_tie = true;
                    }
                    v
                }
                _ => {
                    let v = b.entries.iter().enumerate().min_by_key(|(_, e)| e.born).map(|(i, _)| i).unwrap();
                    vec![v]
                }
            };
            for v in victims {
                let mut w = b.clone();
                w.entries.remove(v);
                w.entries.push(fresh.clone());
                out.push(w);
            }
        }
        out
    }
}

fn dedup(ws: &mut Vec<World>) {
    let mut out: Vec<World> = vec![];
    for mut w in ws.drain(..) {
        w.entries.sort_by_key(|e| e.key);
        if !out.contains(&w) {
            out.push(w);
        }
    }
    *ws = out;
}

// ------------------------------------------------------------------ interpreter

fn map_outcome(r: Result<Resp, CacheError<SErr>>) -> Outcome {
    match r {
        Ok(resp) => Outcome::Ok {
            serial: resp.serial,
            req: resp.req,
        },
        Err(CacheError::Inner(e)) => Outcome::Inner {
            code: e.code,
            serial: e.serial,
        },
    }
}

pub struct Verdict {
    pub violation: Option<String>,
    pub marks: Vec<&'static str>,
    pub nontrivial: bool,
    pub log: Vec<Ev>,
    pub inconclusive: bool,
}

pub fn run_cache(case: &CacheCase) -> Verdict {
    sim::run_case(interp(case))
}

/// Cache key whose `Hash` is coarser than its `Eq` (only the lowest bit is hashed), as the `Hash`
/// contract allows: unequal keys collide all the time and only `Eq` tells them apart.
#[derive(Clone, Copy, Debug, PartialEq, Eq)]
pub struct CKey(pub u32);
impl std::hash::Hash for CKey {
    fn hash<H: std::hash::Hasher>(&self, h: &mut H) {
        (self.0 & 1).hash(h)
    }
}

type Svc = tower_resilience_cache::Cache<Scripted, Req, CKey, Resp>;

async fn interp(case: &CacheCase) -> Verdict {
    let log = Log::new();
    let mut sim = Sim::new(log.clone(), vec![]);
    // script from the request tag: bit 0 = ok, bits 8.. = latency
    // setter_order bit 4: inner calls use up the cooperative budget in the poll they complete in
    let drain = case.setter_order & 16 != 0;
    let inner = Scripted::new(log.clone(), 1, move |req, _, _| {
        let lat = req.tag >> 8;
        Step {
            lat: if drain { Lat::MsDrain(lat) } else { Lat::Ms(lat) },
            out: if req.tag & 1 == 1 { Out::Ok } else { Out::Err(6) },
        }
    });
    let policy = match case.policy {
        0 => EvictionPolicy::Lru,
        1 => EvictionPolicy::Lfu,
        _ => EvictionPolicy::Fifo,
    };
    // builder discipline: the three settings in a generated rotation (bits 0-1), before or after the
    // key extractor (bit 3), optionally preceded by other values that they must override (bit 2)
    let (rot, decoy) = ((case.setter_order & 3) as usize, case.setter_order & 4 != 0);
    let (cap, ttl) = (case.max_size, case.ttl);
    let other_policy = match case.policy {
        0 => EvictionPolicy::Fifo,
        _ => EvictionPolicy::Lru,
    };
    macro_rules! settings {
        ($b:expr) => {{
            let mut b = $b;
            if case.setter_order & 32 != 0 {
                b = b.on_hit(|| {}).on_miss(|| {}).on_eviction(|| {});
            }
            if decoy {
                b = b.max_size(cap + 5).eviction_policy(other_policy);
                if ttl.is_some() {
                    b = b.ttl(Duration::from_millis(1));
                }
            }
            for k in 0..3usize {
                match (k + rot) % 3 {
                    0 => b = b.max_size(cap),
                    1 => b = b.eviction_policy(policy),
                    _ => {
                        if let Some(t) = ttl {
                            b = b.ttl(Duration::from_millis(t));
                        }
                    }
                }
            }
            b
        }};
    }
    let mut svcs: Vec<Svc> = if case.mode == 2 {
        let b = SharedCacheLayer::<Req, CKey, Resp>::builder();
        let layer = if case.setter_order & 8 != 0 {
            settings!(b.key_extractor(|r: &Req| CKey(r.key))).build()
        } else {
            settings!(b).key_extractor(|r: &Req| CKey(r.key)).build()
        };
        vec![layer.layer(inner.clone()), layer.layer(inner.clone())]
    } else {
        let b = CacheLayer::<Req, CKey>::builder();
        let layer = if case.setter_order & 8 != 0 {
            settings!(b.key_extractor(|r: &Req| CKey(r.key))).build()
        } else {
            settings!(b).key_extractor(|r: &Req| CKey(r.key)).build()
        };
        let s = layer.layer(inner.clone());
        if case.mode == 1 {
            vec![s.clone(), s]
        } else {
            vec![s]
        }
    };
    let cfg = Cfg {
        policy: case.policy,
        cap: case.max_size,
        ttl: case.ttl,
    };
    let mut keys_of: Vec<u32> = vec![];
    let mut tasks: Vec<usize> = vec![];
    for op in &case.ops {
        match op {
            COp::Get { key, ok, lat, via } => {
                let id = keys_of.len() as u32;
                keys_of.push(*key);
                let req = Req {
                    id,
                    key: *key,
                    tag: (*lat << 8) | (*ok as u64),
                };
                let n = svcs.len();
                let s = &mut svcs[(*via as usize) % n];
                let _ = futures::future::poll_fn(|cx| s.poll_ready(cx)).await;
                log.note("call", id as i64, *key as i64);
                let fut = s.call(req);
                tasks.push(sim.spawn_call(fut, map_outcome));
                sim.settle().await;
            }
            COp::Adv(a) => {
                let ms = match a {
                    CAdv::Ms(m) => *m,
                    CAdv::Ttl(d) => (case.ttl.unwrap_or(30).min(200) as i64 + *d as i64).max(0) as u64,
                };
                sim.advance(ms).await;
            }
        }
    }
    sim.advance(35).await;

    // ---------------- replay the log against the worlds
    let snap = log.snapshot();
    let mut worlds = vec![
        World {
            lfu_update_counts: true,
            entries: vec![],
        },
        World {
            lfu_update_counts: false,
            entries: vec![],
        },
    ];
    if case.policy != 1 {
        worlds.truncate(1);
    }
    let mut marks = Marks::default();
    let mut violation = None;
    let mut inconclusive = false;
    let mut seq = 0u64;
    // serial -> (request id, key)
    let mut serial_req: std::collections::HashMap<u64, (u32, u32)> = Default::default();
    let mut overlapping_same_key = false;
    let mut in_flight_keys: Vec<(u64, u32)> = vec![];
    let mut idx = 0;
    'outer: while idx < snap.len() {
        match &snap[idx] {
            Ev::Note {
                kind: "call",
                a,
                b,
                t,
            } => {
                let id = *a as u32;
                let key = *b as u32;
                seq += 1;
                // did the inner service get called for this request (synchronously or in the same instant)?
                let enters: Vec<u64> = snap
                    .iter()
                    .filter_map(|e| match e {
                        Ev::Enter { serial, req, .. } if req.id == id => Some(*serial),
                        _ => None,
                    })
                    .collect();
                if enters.len() > 1 {
                    violation = Some(format!(
                        "request {id} (key {key}) reached the inner service {} times",
                        enters.len()
                    ));
                    break 'outer;
                }
                let called = !enters.is_empty();
                let resolve = snap.iter().find_map(|e| match e {
                    Ev::Resolve { t, task, out } if *task == tasks[id as usize] => Some((*t, out.clone())),
                    _ => None,
                });
                let mut next = vec![];
                let had = worlds.len();
                let mut hit_serials = vec![];
                for w in worlds.drain(..) {
                    for (w2, r) in w.lookup(&cfg, key, *t, seq, &mut marks) {
                        match (r, called) {
                            (None, true) => next.push(w2),
                            (Some(s), false) => {
                                hit_serials.push(s);
                                // the value returned must be that serial, for that key, at once
                                if let Some((rt, Outcome::Ok { serial, req })) = &resolve {
                                    if *serial == s && req.key == key && *rt == *t {
                                        next.push(w2);
                                    }
                                }
                            }
                            _ => {}
                        }
                    }
                }
                worlds = next;
                dedup(&mut worlds);
                if worlds.is_empty() {
                    violation = Some(if called {
                        format!(
                            "t={t}: request {id} for key {key} called the inner service although the cache must hold a live entry for that key ({had} reference worlds, all expected a hit)"
                        )
                    } else {
                        format!(
                            "t={t}: request {id} for key {key} was answered from the cache with {:?}; the reference cache allows {}",
                            resolve.map(|r| r.1),
                            if hit_serials.is_empty() { "only a miss (entry absent, expired or evicted)".to_string() } else { format!("only serial(s) {:?} of key {key}", hit_serials) }
                        )
                    });
                    break 'outer;
                }
                if called {
                    serial_req.insert(enters[0], (id, key));
                    if in_flight_keys.iter().any(|(_, k)| *k == key) {
                        overlapping_same_key = true;
                    }
                    in_flight_keys.push((enters[0], key));
                }
            }
            Ev::Done { t, serial, ok } => {
                in_flight_keys.retain(|(s, _)| s != serial);
                if let Some((id, key)) = serial_req.get(serial).copied() {
                    // the caller gets its own inner result, in this instant
                    let resolve = snap.iter().find_map(|e| match e {
                        Ev::Resolve { t, task, out } if *task == tasks[id as usize] => Some((*t, out.clone())),
                        _ => None,
                    });
                    let fine = match &resolve {
                        Some((rt, Outcome::Ok { serial: s, req })) => *ok && s == serial && req.id == id && rt == t,
                        Some((rt, Outcome::Inner { serial: s, .. })) => !*ok && s == serial && rt == t,
                        _ => false,
                    };
                    if !fine {
                        violation = Some(format!(
                            "t={t}: request {id} (key {key}) missed and its inner call {serial} finished (ok={ok}) but the caller got {:?}",
                            resolve
                        ));
                        break 'outer;
                    }
                    if *ok {
                        seq += 1;
                        let mut next = vec![];
                        for w in worlds.drain(..) {
                            next.extend(w.store(&cfg, key, *serial, *t, seq, &mut marks));
                        }
                        worlds = next;
                        dedup(&mut worlds);
                        if worlds.len() > 4000 {
                            inconclusive = true;
                            break 'outer;
                        }
                    }
                }
            }
            _ => {}
        }
        idx += 1;
    }
    if violation.is_none() {
        for tk in &tasks {
            if sim.state(*tk) == TaskState::Live {
                violation = Some("a request never resolved".into());
            }
        }
        for (task, msg) in &sim.unexpected_panics {
            violation = Some(format!("unexpected panic in task {task}: {msg}"));
        }
    }
    let mut m = vec![];
    if case.ops.len() > 240 {
        m.push("hot_key_run_of_250_or_more_requests");
    }
    if case.setter_order & 32 != 0 {
        m.push("event_listeners_registered");
    }
    if marks.eviction {
        m.push("eviction_at_capacity");
    }
    if marks.expiry_reinsert {
        m.push("expiry_then_reinsert");
    }
    if marks.update_present {
        m.push("update_of_present_key");
    }
    if overlapping_same_key {
        m.push("overlapping_misses_same_key");
    }
    if marks.lfu_tie {
        m.push("lfu_tie");
    }
    if marks.ttl_tie {
        m.push("read_exactly_at_ttl");
    }
    m.push(match case.policy {
        0 => "lru",
        1 => "lfu",
        _ => "fifo",
    });
    m.push(match case.mode {
        0 => "private_single",
        1 => "private_cloned",
        _ => "shared_layer_two_services",
    });
    Verdict {
        violation,
        nontrivial: marks.eviction
            && (marks.expiry_reinsert || marks.update_present || marks.lfu_tie || marks.ttl_tie),
        marks: m,
        log: snap,
        inconclusive,
    }
}

pub struct C10;
impl Property for C10 {
    type Case = CacheCase;
    fn id(&self) -> &'static str {
        "C10"
    }
    fn strategy(&self, tier: Tier) -> BoxedStrategy<CacheCase> {
        prop_oneof![800 => case_strategy(tier), 1 => stress_strategy(tier)].boxed()
    }
    fn budget(&self, tier: Tier) -> (u32, usize) {
        match tier {
            Tier::Quick => (100_000, 8),
            Tier::Thorough => (2_000_000, 16),
        }
    }
    fn run(&self, case: &CacheCase) -> Report {
        if let Some(st) = &case.stress {
            return run_cache_stress(st);
        }
        let v = run_cache(case);
        let mut r = Report::default();
        if let Some(m) = &v.violation {
            r.fail(m.clone());
        }
        r.nontrivial = v.nontrivial;
        r.classes = v.marks.clone();
        if v.inconclusive {
            r.class("world_limit_reached_case_not_judged_further");
        }
        let evs: Vec<_> = v.log.iter().take(60).collect();
        r.trace = json!({ "events": evs, "events_total": v.log.len() });
        r
    }
    fn rule(&self) -> String {
        "proptest-generated histories: policy (LRU/LFU/FIFO), max_size 1-4, TTL none / 20-100 ms / long, store private, cloned or shared between two services of one SharedCacheLayer, 0-80/500 ops over 2-7 keys: request(key) with scripted inner ok/error and latency 0-30 ms (misses on one key overlap), advance by ms or exactly TTL-1/TTL/TTL+1; about one case in 800 is instead a real-thread stress (2-8 OS threads x 4000/30000 reads of 1-6 warm keys through their own handles on one store, nothing expires or is evicted: zero further inner calls, every read returns the stored response). Every inner response carries a fresh serial. Oracle: reference cache as a set of worlds (LFU ties: any minimum-count victim; expired entries purged before an eviction or not; exactly-at-TTL read hit or miss; LFU counts updates or not): not calling inner requires some world with a live entry whose serial is the one returned, for that key, in the same instant; calling inner requires some world without a live entry; a miss is called once and the caller gets its own result; only Ok results are stored.Also generated: event listeners; hot-key runs of 250-300 requests for one key. Non-trivial: an eviction at capacity together with an expiry-then-reinsert, an update of a present key, an LFU tie or a read exactly at the TTL; distinct by hash of the case".into()
    }
    fn assumptions(&self) -> Vec<String> {
        vec![
            "the size bound is checked through its observable consequence: an entry that every world has evicted can never hit".into(),
            "cases whose world set exceeds 4000 are cut short and classified, never reported as violations".into(),
        ]
    }
}
