//! C05: retry makes between 1 and max(1, max_attempts) attempts, stops at the first success or
//! refused error, returns exactly the last outcome, waits at least the backoff before each retry,
//! and never retries without a budget grant.

use crate::runner::{Property, Report, Tier};
use crate::sim::{self, current_task, Ev, Log, Outcome, Req, Sim, TaskState};
use crate::svc::{Lat, Out, Resp, SErr, Scripted, Step};
use proptest::prelude::*;
use serde::{Deserialize, Serialize};
use serde_json::json;
use std::collections::HashMap;
use std::sync::Arc;
use std::time::Duration;
use tower::{Layer, Service};
use tower_resilience_retry::{
    ExponentialBackoff, ExponentialRandomBackoff, FnInterval, IntervalFunction, RetryBudget,
    RetryBudgetBuilder, RetryLayer,
};

#[derive(Clone, Debug, Serialize, Deserialize, PartialEq)]
pub enum Backoff {
    /// builder.fixed_backoff(ms)
    Fixed(u64),
    /// builder.exponential_backoff(ms): multiplier 2, no cap
    ExpDefault(u64),
    /// ExponentialBackoff with multiplier (tenths) and cap, through the logging wrapper
    Exp { init: u64, mult10: u8, cap: Option<u64> },
    /// ExponentialRandomBackoff, factor in tenths
    ExpRandom { init: u64, factor10: u8, cap: Option<u64> },
    /// custom, non-monotone function of the attempt
    Custom,
    /// fixed_backoff(Duration::MAX) through the logging wrapper: "never retry in my lifetime" -
    /// after a retryable failure the request is parked for good (no further attempt)
    Forever,
    /// the same function shifted by this many places (3: the first retry is free, 0 ms, the
    /// later ones are not)
    CustomFrom(u8),
    /// builder.fixed_backoff(Duration::from_micros(us)), 0 < us < 1000: not "no back-off"
    FixedMicros(u32),
}

#[derive(Clone, Debug, Serialize, Deserialize, PartialEq)]
pub enum Budget {
    None,
    Token { max: usize, initial: usize },
    Aimd { min: usize, max: usize, deposit: usize, cost: usize, factor10: u8 },
}

#[derive(Clone, Debug, Serialize, Deserialize)]
pub struct Request {
    pub at: u64,
    /// per-request max_attempts (used when `per_request` is set)
    pub max_attempts: usize,
    /// (latency ms, outcome: 0 ok, 1..4 retryable error code, 9 refused error)
    pub script: Vec<(u64, u8)>,
    /// the caller drops the response future this many ms after issuing the request
    #[serde(default)]
    pub cancel_after: Option<u64>,
}

#[derive(Clone, Debug, Serialize, Deserialize)]
pub struct RetryCase {
    pub max_attempts: usize,
    pub per_request: bool,
    pub backoff: Backoff,
    pub predicate: bool,
    pub budget: Budget,
    pub requests: Vec<Request>,
    pub order: Vec<u8>,
    /// once every request has arrived the clock advances in steps of this many ms (a stalled
    /// executor sees timers late; waiting longer than the backoff is allowed, shorter is not)
    #[serde(default = "one")]
    pub step_ms: u64,
    /// builder call order (bit 0 predicate first, bit 1 max_attempts last, bit 2 budget first, bit 3 the other attempts setter called earlier)
    #[serde(default)]
    pub setter_order: u8,
    /// inner calls use up the task's cooperative budget in the poll they complete in
    #[serde(default)]
    pub drain_budget: bool,
    /// every kind of event listener is registered on the layer
    #[serde(default)]
    pub listeners: bool,
}

fn one() -> u64 {
    1
}

const CUSTOM_MS: [u64; 8] = [7, 2, 11, 0, 5, 1, 9, 3];

fn case_strategy(_tier: Tier) -> BoxedStrategy<RetryCase> {
    let backoff = prop_oneof![
        2 => (0u64..=20).prop_map(Backoff::Fixed),
        1 => (1u64..=4).prop_map(Backoff::ExpDefault),
        2 => (1u64..=8, prop_oneof![Just(10u8), Just(15u8), Just(20u8), Just(30u8)], prop_oneof![Just(None), (1u64..=40).prop_map(Some)])
            .prop_map(|(init, mult10, cap)| Backoff::Exp { init, mult10, cap }),
        2 => (1u64..=8, 0u8..=10, prop_oneof![Just(None), (1u64..=40).prop_map(Some)])
            .prop_map(|(init, factor10, cap)| Backoff::ExpRandom { init, factor10, cap }),
        2 => Just(Backoff::Custom),
        2 => prop_oneof![2 => Just(3u8), 1 => 0u8..8].prop_map(Backoff::CustomFrom),
        1 => Just(Backoff::Forever),
        1 => prop_oneof![Just(1u32), Just(900u32), 1u32..=999].prop_map(Backoff::FixedMicros),
    ];
    let budget = prop_oneof![
        3 => Just(Budget::None),
        3 => (0usize..=3).prop_flat_map(|max| (Just(max), 0..=max)).prop_map(|(max, initial)| Budget::Token { max, initial }),
        2 => (0usize..=1, 1usize..=3, 1usize..=2, 1usize..=2, prop_oneof![Just(0u8), Just(5u8), Just(10u8)])
            .prop_map(|(min, max, deposit, cost, factor10)| Budget::Aimd { min: min.min(max), max, deposit, cost, factor10 }),
    ];
    let outcome = prop_oneof![3 => Just(0u8), 5 => 1u8..=4, 1 => Just(9u8)];
    let request = (
        prop_oneof![2 => Just(0u64), 1 => 0u64..=30],
        0usize..=6,
        prop::collection::vec((prop_oneof![2 => Just(0u64), 1 => 0u64..=20], outcome), 1..=8),
        prop_oneof![6 => Just(None), 1 => (1u64..=40).prop_map(Some), 1 => (1u64..=6).prop_map(|k| Some(k * 5))],
    )
        .prop_map(|(at, max_attempts, script, cancel_after)| Request {
            at,
            max_attempts,
            script,
            cancel_after,
        });
    let general = (
        0usize..=6,
        any::<bool>(),
        backoff,
        any::<bool>(),
        budget,
        prop::collection::vec(request, 1..=4),
        prop::collection::vec(any::<u8>(), 0..=32),
        (prop_oneof![5 => Just(1u64), 1 => Just(2u64), 1 => Just(5u64), 1 => 2u64..=40], 0u8..16, prop::bool::weighted(0.2), prop::bool::weighted(0.3)),
    )
        .prop_map(
            |(max_attempts, per_request, backoff, predicate, budget, requests, order, (step_ms, setter_order, drain_budget, listeners))| RetryCase {
                max_attempts,
                per_request,
                backoff,
                predicate,
                budget,
                requests,
                order,
                step_ms,
                setter_order,
                drain_budget,
                listeners,
            },
        );
    // long outage: one request retried 40-80 times against a capped exponential (or tiny fixed)
    // backoff, so that high attempt indices of the built-in policies are exercised end to end
    let long = (
        40usize..=80,
        prop_oneof![
            3 => (1u64..=2, prop_oneof![Just(20u8), Just(15u8), Just(30u8)], 1u64..=4)
                .prop_map(|(init, mult10, cap)| Backoff::Exp { init, mult10, cap: Some(cap) }),
            1 => (1u64..=2, 0u8..=5, 1u64..=4)
                .prop_map(|(init, factor10, cap)| Backoff::ExpRandom { init, factor10, cap: Some(cap) }),
            1 => (0u64..=1).prop_map(Backoff::Fixed),
        ],
        prop_oneof![3 => Just(1u8), 1 => Just(0u8)],
    )
        .prop_map(|(max_attempts, backoff, last)| RetryCase {
            max_attempts,
            per_request: false,
            backoff,
            predicate: false,
            budget: Budget::None,
            requests: vec![Request {
                at: 0,
                max_attempts,
                // fails (retryable) for 38+ attempts, then keeps failing or succeeds
                script: {
                    let mut v = vec![(0u64, 1u8); 38 + (max_attempts % 30)];
                    v.push((0, last));
                    v
                },
                cancel_after: None,
            }],
            order: vec![],
            step_ms: 1,
            setter_order: 0,
            drain_budget: false,
            listeners: false,
        });
    prop_oneof![14 => general, 1 => long].boxed()
}

struct LogInterval {
    inner: Arc<dyn IntervalFunction>,
    log: Log,
}
impl IntervalFunction for LogInterval {
    fn next_interval(&self, attempt: usize) -> Duration {
        let d = self.inner.next_interval(attempt);
        self.log.push(Ev::Note {
            t: sim::now(),
            kind: "interval",
            a: attempt as i64,
            b: d.as_nanos().min(i64::MAX as u128) as i64,
        });
        self.log.note("interval_task", current_task() as i64, 0);
        d
    }
}

struct LogBudget {
    inner: Arc<dyn RetryBudget>,
    log: Log,
}
impl RetryBudget for LogBudget {
    fn try_withdraw(&self) -> bool {
        let g = self.inner.try_withdraw();
        self.log
            .note("withdraw", current_task() as i64, g as i64);
        g
    }
    fn deposit(&self) {
        self.inner.deposit();
        self.log.note("deposit", current_task() as i64, 0);
    }
    fn balance(&self) -> usize {
        self.inner.balance()
    }
}

fn map_outcome(r: Result<Resp, SErr>) -> Outcome {
    match r {
        Ok(resp) => Outcome::Ok {
            serial: resp.serial,
            req: resp.req,
        },
        Err(e) => Outcome::Inner {
            code: e.code,
            serial: e.serial,
        },
    }
}

pub struct Verdict {
    pub violations: Vec<String>,
    pub classes: Vec<&'static str>,
    pub nontrivial: bool,
    pub log: Vec<Ev>,
}

pub fn run_retry(case: &RetryCase) -> Verdict {
    sim::run_case(interp(case))
}

async fn interp(case: &RetryCase) -> Verdict {
    let mut violations = vec![];
    let log = Log::new();
    let mut sim = Sim::new(log.clone(), case.order.clone());
    let mut table: HashMap<u32, Vec<Step>> = HashMap::new();
    for (i, r) in case.requests.iter().enumerate() {
        table.insert(
            i as u32,
            r.script
                .iter()
                .map(|&(lat, o)| Step {
                    lat: if case.drain_budget { Lat::MsDrain(lat) } else { Lat::Ms(lat) },
                    out: if o == 0 { Out::Ok } else { Out::Err(o as u32) },
                })
                .collect(),
        );
    }
    let inner = Scripted::from_table(log.clone(), table, Step::ok(0));

    let mut b = RetryLayer::<Req, SErr>::builder().name("vcheck");
    if case.listeners {
        b = b
            .on_retry(|_, _| {})
            .on_success(|_| {})
            .on_error(|_| {})
            .on_ignored_error(|| {})
            .on_budget_exhausted(|_| {});
    }
    // builder call order: bit 0 predicate before the back-off setter, bit 1 max_attempts last,
    // bit 2 budget before the back-off setter (setters are documented as order-independent)
    let (pred_first, attempts_last, budget_first) = (
        case.setter_order & 1 != 0,
        case.setter_order & 2 != 0,
        case.setter_order & 4 != 0,
    );
    if !attempts_last {
        // bit 3: the other attempts setter was called earlier with other values; the later call
        // is the one that counts
        if case.setter_order & 8 != 0 {
            b = if case.per_request {
                b.max_attempts(case.max_attempts + 2)
            } else {
                b.max_attempts_fn(|r: &Req| (r.tag & 0xff) as usize + 3)
            };
        }
        b = if case.per_request {
            b.max_attempts_fn(|r: &Req| (r.tag & 0xff) as usize)
        } else {
            b.max_attempts(case.max_attempts)
        };
    }
    if case.predicate && pred_first {
        b = b.retry_on(|e: &SErr| e.code != 9);
    }
    let budget_of = |log: &Log| -> Option<Arc<dyn RetryBudget>> {
        match &case.budget {
            Budget::None => None,
            Budget::Token { max, initial } => {
                let inner_b = RetryBudgetBuilder::new()
                    .token_bucket()
                    .max_tokens(*max)
                    .initial_tokens(*initial)
                    .build();
                Some(Arc::new(LogBudget {
                    inner: inner_b,
                    log: log.clone(),
                }))
            }
            Budget::Aimd {
                min,
                max,
                deposit,
                cost,
                factor10,
            } => {
                let inner_b = RetryBudgetBuilder::new()
                    .aimd()
                    .min_budget(*min)
                    .max_budget(*max)
                    .deposit_amount(*deposit)
                    .withdraw_amount(*cost)
                    .decrease_factor(*factor10 as f64 / 10.0)
                    .build();
                Some(Arc::new(LogBudget {
                    inner: inner_b,
                    log: log.clone(),
                }))
            }
        }
    };
    if budget_first {
        if let Some(bg) = budget_of(&log) {
            b = b.budget(bg);
        }
    }
    // expected lower bound (ns) of the delay before retry k, where it is computed independently
    let mut independent: Option<Box<dyn Fn(usize) -> u128>> = None;
    // checked in addition to the value the wrapped interval function reported
    let mut independent_too: Option<Box<dyn Fn(usize) -> u128>> = None;
    b = match &case.backoff {
        Backoff::Fixed(ms) => {
            let ms = *ms;
            independent = Some(Box::new(move |_| ms as u128 * 1_000_000));
            b.fixed_backoff(Duration::from_millis(ms))
        }
        Backoff::FixedMicros(us) => {
            let us = *us;
            independent = Some(Box::new(move |_| us as u128 * 1_000));
            b.fixed_backoff(Duration::from_micros(us as u64))
        }
        Backoff::ExpDefault(ms) => {
            let ms = *ms;
            independent = Some(Box::new(move |k| {
                (ms as u128 * 1_000_000) << k.min(40)
            }));
            b.exponential_backoff(Duration::from_millis(ms))
        }
        Backoff::Exp { init, mult10, cap } => {
            // documented value, computed here without the library: min(init x mult^k, cap)
            let (i0, m, c) = (*init as f64 * 1e6, *mult10 as f64 / 10.0, cap.map(|c| c as f64 * 1e6));
            independent_too = Some(Box::new(move |k| {
                let v = i0 * m.powi(k.min(2000) as i32);
                let v = match c {
                    Some(c) => v.min(c),
                    None => v,
                };
                // float slack; an uncapped product is only checked up to a day
                (v.min(86_400e9) * (1.0 - 1e-9)) as u128
            }));
            let mut e = ExponentialBackoff::new(Duration::from_millis(*init))
                .multiplier(*mult10 as f64 / 10.0);
            if let Some(c) = cap {
                e = e.max_interval(Duration::from_millis(*c));
            }
            b.backoff(LogInterval {
                inner: Arc::new(e),
                log: log.clone(),
            })
        }
        Backoff::ExpRandom { init, factor10, cap } => {
            let mut e =
                ExponentialRandomBackoff::new(Duration::from_millis(*init), *factor10 as f64 / 10.0);
            if let Some(c) = cap {
                e = e.max_interval(Duration::from_millis(*c));
            }
            b.backoff(LogInterval {
                inner: Arc::new(e),
                log: log.clone(),
            })
        }
        Backoff::Forever => b.backoff(LogInterval {
            inner: Arc::new(FnInterval::new(|_k: usize| Duration::MAX)),
            log: log.clone(),
        }),
        Backoff::CustomFrom(rot) => {
            let rot = *rot as usize;
            b.backoff(LogInterval {
                inner: Arc::new(FnInterval::new(move |k: usize| {
                    Duration::from_millis(CUSTOM_MS[(k + rot) % CUSTOM_MS.len()])
                })),
                log: log.clone(),
            })
        }
        Backoff::Custom => b.backoff(LogInterval {
            inner: Arc::new(FnInterval::new(|k: usize| {
                Duration::from_millis(CUSTOM_MS[k % CUSTOM_MS.len()])
            })),
            log: log.clone(),
        }),
    };
    if case.predicate && !pred_first {
        b = b.retry_on(|e: &SErr| e.code != 9);
    }
    let has_budget = !matches!(case.budget, Budget::None);
    if !budget_first {
        if let Some(bg) = budget_of(&log) {
            b = b.budget(bg);
        }
    }
    if attempts_last {
        // bit 3: the other attempts setter was called earlier with other values; the later call
        // is the one that counts
        if case.setter_order & 8 != 0 {
            b = if case.per_request {
                b.max_attempts(case.max_attempts + 2)
            } else {
                b.max_attempts_fn(|r: &Req| (r.tag & 0xff) as usize + 3)
            };
        }
        b = if case.per_request {
            b.max_attempts_fn(|r: &Req| (r.tag & 0xff) as usize)
        } else {
            b.max_attempts(case.max_attempts)
        };
    }
    let layer = b.build();
    let mut svc = layer.layer(inner.clone());

    let n = case.requests.len();
    let mut task = vec![None; n];
    let mut cancelled = vec![false; n];
    let horizon = 6_000u64;
    let last_arrival = case.requests.iter().map(|r| r.at).max().unwrap_or(0);
    let mut t = 0u64;
    while t <= horizon {
        if t > 0 {
            // after the last arrival the clock may jump: everything due in between fires late
            let step = if t > last_arrival { case.step_ms.max(1) } else { 1 };
            crate::vclock::advance_ms(step - 1);
            sim.begin_instant().await;
            t += step - 1;
        }
        for (i, r) in case.requests.iter().enumerate() {
            if r.at == t {
                let req = Req {
                    id: i as u32,
                    key: 0,
                    tag: r.max_attempts as u64,
                };
                let _ = futures::future::poll_fn(|cx| svc.poll_ready(cx)).await;
                let fut = svc.call(req);
                task[i] = Some(sim.spawn_call(fut, map_outcome));
            }
            if let (Some(d), Some(tk)) = (r.cancel_after, task[i]) {
                if r.at + d == t && sim.state(tk) == TaskState::Live {
                    let resolved = log.with(|l| l.iter().any(|e| matches!(e, Ev::Resolve { task, .. } if *task == tk)));
                    if !resolved {
                        cancelled[i] = true;
                        sim.cancel(tk);
                    }
                }
            }
        }
        sim.settle().await;
        if t > 40 && task.iter().all(|tk| tk.map_or(false, |k| sim.state(k) != TaskState::Live)) {
            break;
        }
        // more inner calls than all requests together may ever make: the verdict is already certain
        let allowed: u64 = case
            .requests
            .iter()
            .map(|r| if case.per_request { r.max_attempts } else { case.max_attempts }.max(1) as u64)
            .sum();
        if inner.shared.calls() > allowed || sim.livelock {
            break;
        }
        t += 1;
    }

    let snap = log.snapshot();
    let mut any_retry = false;
    let mut any_cancel = false;
    let mut any_denial = false;
    let mut any_refused = false;
    let mut any_exhaust = false;
    let mut total_grants = 0usize;
    let mut total_retries = 0usize;
    for e in &snap {
        if let Ev::Note {
            kind: "withdraw",
            b: 1,
            ..
        } = e
        {
            total_grants += 1;
        }
    }
    for (i, r) in case.requests.iter().enumerate() {
        let Some(tk) = task[i] else { continue };
        let m = if case.per_request {
            r.max_attempts
        } else {
            case.max_attempts
        }
        .max(1);
        // positions in the log of this request's inner entries and completions
        let mut enters: Vec<(usize, u64, u64)> = vec![]; // (log idx, t, serial)
        for (idx, e) in snap.iter().enumerate() {
            if let Ev::Enter { t, serial, req, .. } = e {
                if req.id == i as u32 {
                    enters.push((idx, *t, *serial));
                }
            }
        }
        let nent = enters.len();
        if nent == 0 {
            violations.push(format!("request {i}: the inner service was never invoked"));
            continue;
        }
        if nent > m {
            violations.push(format!(
                "request {i}: {nent} inner attempts, max(1, max_attempts) = {m}"
            ));
        }
        total_retries += nent - 1;
        let done_of = |serial: u64| -> Option<(usize, u64)> {
            snap.iter().enumerate().find_map(|(idx, e)| match e {
                Ev::Done { t, serial: s, .. } if *s == serial => Some((idx, *t)),
                _ => None,
            })
        };
        let outcome_of = |k: usize| -> u8 { r.script.get(k).or(r.script.last()).map(|s| s.1).unwrap_or(0) };
        for k in 0..nent {
            let o = outcome_of(k);
            let Some((done_idx, done_t)) = done_of(enters[k].2) else {
                if cancelled[i] {
                    // dropped by its caller while this attempt was running
                    any_cancel = true;
                } else {
                    violations.push(format!("request {i}: attempt {k} never completed"));
                }
                break;
            };
            if k + 1 < nent {
                any_retry = true;
                // a retry followed attempt k
                if o == 0 {
                    violations.push(format!(
                        "request {i}: attempt {k} succeeded but another attempt followed"
                    ));
                }
                if case.predicate && o == 9 {
                    violations.push(format!(
                        "request {i}: attempt {k} failed with an error the predicate refuses, yet it was retried"
                    ));
                }
                let (next_idx, next_t, _) = enters[k + 1];
                let between = &snap[done_idx..next_idx];
                if has_budget {
                    let granted = between.iter().any(|e| matches!(e, Ev::Note { kind: "withdraw", a, b: 1, .. } if *a == tk as i64));
                    if !granted {
                        violations.push(format!(
                            "request {i}: retry {k} was made without a budget grant for it"
                        ));
                    }
                }
                // backoff
                let gap_ns = (next_t - done_t) as u128 * 1_000_000;
                if let Some(f) = &independent_too {
                    let want = f(k);
                    if gap_ns + 1_000 < want {
                        violations.push(format!(
                            "request {i}: retry {k} started {} ms after attempt {k} failed; the configured exponential backoff for retry {k} is min(initial x multiplier^{k}, max_interval) >= {} ns",
                            next_t - done_t, want
                        ));
                    }
                }
                if let Some(f) = &independent {
                    let want = f(k);
                    if gap_ns + 1_000 < want {
                        violations.push(format!(
                            "request {i}: retry {k} started {} ms after attempt {k} failed, configured backoff is {} ns",
                            next_t - done_t, want
                        ));
                    }
                } else {
                    // interval note logged by the wrapper under this task
                    let mut found = None;
                    for w in between.windows(2) {
                        if let (
                            Ev::Note {
                                kind: "interval",
                                a,
                                b,
                                ..
                            },
                            Ev::Note {
                                kind: "interval_task",
                                a: tsk,
                                ..
                            },
                        ) = (&w[0], &w[1])
                        {
                            if *tsk == tk as i64 {
                                found = Some((*a, *b));
                            }
                        }
                    }
                    match found {
                        None => violations.push(format!(
                            "request {i}: retry {k} happened without consulting the configured backoff"
                        )),
                        Some((idx, ns)) => {
                            if idx != k as i64 {
                                violations.push(format!(
                                    "request {i}: retry {k} (0-indexed) used the backoff for attempt {idx}"
                                ));
                            }
                            if gap_ns < ns as u128 {
                                violations.push(format!(
                                    "request {i}: retry {k} started {} ms after the failure, backoff was {} ns",
                                    next_t - done_t, ns
                                ));
                            }
                        }
                    }
                }
            } else {
                // last attempt: why did it stop?
                let after = &snap[done_idx..];
                let denied = after.iter().any(|e| matches!(e, Ev::Note { kind: "withdraw", a, b: 0, .. } if *a == tk as i64));
                let resolve = snap.iter().find_map(|e| match e {
                    Ev::Resolve { task, out, t } if *task == tk => Some((out.clone(), *t)),
                    _ => None,
                });
                let Some((out, rt)) = resolve else {
                    let parked_for_good = matches!(case.backoff, Backoff::Forever)
                        && after.iter().any(|e| matches!(e, Ev::Note { kind: "interval", .. }));
                    if cancelled[i] {
                        any_cancel = true;
                    } else if parked_for_good {
                        // the policy said Duration::MAX: waiting for ever is the right thing
                    } else {
                        violations.push(format!("request {i}: never resolved"));
                    }
                    break;
                };
                if rt != done_t {
                    violations.push(format!(
                        "request {i}: last attempt finished at t={done_t} but the call resolved at t={rt}"
                    ));
                }
                let last_serial = enters[k].2;
                let identical = match (&out, o) {
                    (Outcome::Ok { serial, req }, 0) => *serial == last_serial && req.id == i as u32,
                    (Outcome::Inner { code, serial }, c) if c != 0 => {
                        *serial == last_serial && *code == c as u32
                    }
                    _ => false,
                };
                if !identical {
                    violations.push(format!(
                        "request {i}: result {out:?} is not the outcome of its last attempt (inner call {last_serial}, scripted outcome {o})"
                    ));
                }
                if o != 0 {
                    let refused = case.predicate && o == 9;
                    let exhausted = nent >= m;
                    if refused {
                        any_refused = true;
                    } else if exhausted {
                        any_exhaust = true;
                    } else if has_budget && denied {
                        any_denial = true;
                    } else {
                        violations.push(format!(
                            "request {i}: stopped after {nent} attempt(s) on a retryable error with attempts left (max {m}){}",
                            if has_budget { " and no budget denial" } else { "" }
                        ));
                    }
                }
            }
        }
    }
    if has_budget && total_retries > total_grants {
        violations.push(format!(
            "{total_retries} retries were made but the budget granted only {total_grants}"
        ));
    }
    // "no grant, no retry" also over time: the layer credits the budget once per successful
    // request; any further credit hands a grant back, and a grant whose retry was made cannot be
    // handed back (grants - returned grants >= retries made)
    if has_budget {
        let deposits = snap
            .iter()
            .filter(|e| matches!(e, Ev::Note { kind: "deposit", .. }))
            .count();
        let successes = snap
            .iter()
            .filter(|e| matches!(e, Ev::Done { ok: true, .. }))
            .count();
        let returned = deposits.saturating_sub(successes);
        if total_retries + returned > total_grants {
            violations.push(format!(
                "the budget was credited {deposits} times although only {successes} requests succeeded: {returned} grant(s) were handed back, yet {total_retries} retries were made on {total_grants} grants"
            ));
        }
    }
    for (task, msg) in &sim.unexpected_panics {
        violations.push(format!("unexpected panic in task {task}: {msg}"));
    }
    let mut classes = vec![];
    if any_retry {
        classes.push("retry");
    }
    if any_denial {
        classes.push("budget_denial");
    }
    if any_cancel {
        classes.push("request_cancelled_mid_flight");
    }
    if any_refused {
        classes.push("refused_error");
    }
    if any_exhaust {
        classes.push("exhausted");
    }
    if n > 1 && has_budget {
        classes.push("shared_budget_several_requests");
    }
    if case.per_request {
        classes.push("per_request_max_attempts");
    }
    if case.step_ms > 1 {
        classes.push("coarse_clock_steps");
    }
    Verdict {
        violations,
        nontrivial: any_retry && (any_denial || any_refused || any_exhaust),
        classes,
        log: snap,
    }
}

pub struct C05;
impl Property for C05 {
    type Case = RetryCase;
    fn id(&self) -> &'static str {
        "C05"
    }
    fn strategy(&self, tier: Tier) -> BoxedStrategy<RetryCase> {
        case_strategy(tier)
    }
    fn budget(&self, tier: Tier) -> (u32, usize) {
        match tier {
            Tier::Quick => (600_000, 8),
            Tier::Thorough => (10_000_000, 16),
        }
    }
    fn run(&self, case: &RetryCase) -> Report {
        let v = run_retry(case);
        let mut r = Report::default();
        if let Some(m) = v.violations.first() {
            r.fail(m.clone());
        }
        r.nontrivial = v.nontrivial;
        r.classes = v.classes.clone();
        let evs: Vec<_> = v.log.iter().take(60).collect();
        r.trace = json!({ "events": evs, "events_total": v.log.len() });
        r
    }
    fn rule(&self) -> String {
        "proptest-generated cases: max_attempts 0-6 fixed or per request, backoff in {fixed, exponential default, exponential with multiplier/cap, exponential-random, custom non-monotone function}, predicate on/off, budget in {none, token bucket 0-3, AIMD} wrapped in a logging budget that tags each withdrawal with the polling task, 1-4 concurrent requests with outcome scripts (ok / retryable / refused error, latency 0-20 ms) sharing the budget, poll-order choices; virtual clock. Oracle: reference reading of the script: 1 <= attempts <= max(1,max_attempts); no attempt after a success or refused error; each retry k preceded by a grant logged for that request and by a gap >= the backoff for k (0-indexed; value computed independently for fixed/default-exponential, taken from the wrapped interval function otherwise, with the index checked); the call resolves in the instant of its last attempt with exactly that attempt's serial/code; stopping on a retryable error needs exhaustion or a logged denial.Also generated: event listeners, the other attempts setter (max_attempts / max_attempts_fn) called earlier with other values, a custom back-off whose first interval is zero. Non-trivial: at least one retry and a budget denial, refused error or exhaustion; distinct by hash of the case".into()
    }
    fn assumptions(&self) -> Vec<String> {
        vec![
            "longer waits than the configured backoff are allowed by the statement and not flagged".into(),
            "budget decisions are taken from the logging wrapper (conservation of the budget itself is C08)".into(),
        ]
    }
}
