//! C17: fallback never replaces a success and handles exactly the errors it should. Each generated
//! case (payloads) enumerates the complete strategy x predicate x outcome grid.

use crate::runner::{Property, Report, Tier};
use crate::sim::{self, Ev, Log, Req};
use crate::svc::{Resp, SErr, Scripted, Step};
use proptest::prelude::*;
use serde::{Deserialize, Serialize};
use serde_json::json;
use std::sync::atomic::{AtomicU64, Ordering};
use std::sync::Arc;
use tower::{Layer, Service};
use tower_resilience_fallback::{FallbackError, FallbackLayer};

#[derive(Clone, Debug, Serialize, Deserialize)]
pub struct FbCase {
    pub req_id: u32,
    pub req_key: u32,
    pub req_tag: u64,
    pub value_serial: u64,
    pub code_a: u32,
    pub code_b: u32,
    /// inner latency (ms) so that results are not all immediate
    pub lat: u64,
    /// error code of the failing backup service (either parity, so that the handle predicate may
    /// accept or refuse it)
    #[serde(default = "default_backup_code")]
    pub backup_code: u32,
    /// call `.handle(predicate)` on the builder before the strategy setter instead of after it
    #[serde(default)]
    pub handle_first: bool,
    /// further calls through the same layer after the first one of each cell: (outcome shift,
    /// route: 0 same service, 1 a clone of it, 2 another service built from the same layer)
    #[serde(default)]
    pub more_calls: Vec<(u8, u8)>,
    /// 0: every call of a cell runs alone; 1: the further calls are in flight together; 2: as 1 and
    /// the first of them is dropped while its fallback is pending
    #[serde(default)]
    pub group_mode: u8,
    /// event listeners registered on the layer: bit 0 = one right after builder(), bit 1 = one
    /// just before build(); 0 = none (listeners observe, they must not change any outcome)
    #[serde(default)]
    pub listeners: u8,
    /// "backup service failing" cells: the backup closure goes through a second, independent
    /// fallback layer (from_error strategy) around the failing backup, so the backup's error is
    /// turned into a response there and the outer call succeeds with it
    #[serde(default)]
    pub nested_backup: bool,
    /// another strategy setter is called on the builder before the cell's own one (defaults
    /// first, override later): the strategy configured last is the configured strategy
    #[serde(default)]
    pub strategy_decoy: bool,
    /// the layer's instance name: 0 short, 1 eighty ASCII characters, 2/3 long with two-byte
    /// characters from byte 63 / 62 on (a name is a label, nothing about a call depends on it)
    #[serde(default)]
    pub name_kind: u8,
}

fn default_backup_code() -> u32 {
    77
}

fn case_strategy(_tier: Tier) -> BoxedStrategy<FbCase> {
    (
        any::<u32>(),
        any::<u32>(),
        any::<u64>(),
        1u64..1_000_000,
        1u32..50,
        50u32..99,
        0u64..3,
        100u32..200,
        any::<bool>(),
        prop::collection::vec((0u8..3, 0u8..3), 0..=3),
        prop_oneof![2 => Just(0u8), 1 => Just(1u8), 1 => Just(2u8)],
        (prop_oneof![2 => Just(0u8), 1 => 1u8..=3], prop::bool::weighted(0.3), prop::bool::weighted(0.3), prop_oneof![2 => Just(0u8), 1 => 1u8..=3]),
    )
        .prop_map(|(req_id, req_key, req_tag, value_serial, code_a, code_b, lat, backup_code, handle_first, more_calls, group_mode, (listeners, nested_backup, strategy_decoy, name_kind))| FbCase {
            req_id,
            req_key,
            req_tag,
            value_serial,
            code_a,
            code_b,
            lat,
            backup_code,
            handle_first,
            more_calls,
            group_mode,
            listeners,
            nested_backup,
            strategy_decoy,
            name_kind,
        })
        .boxed()
}

const STRATEGIES: [&str; 7] = [
    "value",
    "value_fn",
    "from_error",
    "from_request_error",
    "service(ok)",
    "service(failing)",
    "exception",
];
const PREDICATES: [&str; 5] = [
    "none",
    "accept all",
    "refuse all",
    "accept odd codes",
    "accept every other time it is asked",
];

const BACKUP_BASE: u64 = 9_000_000;
const NB_BASE: u64 = 70_000_000_000;
const READY_SERIAL: u64 = 424_242;

/// inner service whose poll_ready fails
#[derive(Clone)]
struct FailReady {
    code: u32,
}
impl Service<Req> for FailReady {
    type Response = Resp;
    type Error = SErr;
    type Future = futures::future::BoxFuture<'static, Result<Resp, SErr>>;
    fn poll_ready(&mut self, _cx: &mut std::task::Context<'_>) -> std::task::Poll<Result<(), SErr>> {
        std::task::Poll::Ready(Err(SErr {
            code: self.code,
            serial: READY_SERIAL,
        }))
    }
    fn call(&mut self, _req: Req) -> Self::Future {
        Box::pin(async { unreachable!("called although readiness failed") })
    }
}
const VF_BASE: u64 = 8_000_000;
const FE_BASE: u64 = 7_000_000;
const FRE_BASE: u64 = 6_000_000;
const VAL_BASE: u64 = 5_000_000_000;

fn zero_req() -> Req {
    Req {
        id: 0,
        key: 0,
        tag: 0,
    }
}

async fn run_grid(case: &FbCase) -> (Vec<String>, usize, Vec<serde_json::Value>) {
    let mut violations = vec![];
    let mut cells = 0usize;
    let mut samples = vec![];
    for strat in 0..7usize {
        for pred in 0..5usize {
            for outcome in 0..3usize {
                cells += 1;
                let log = Log::new();
                let (lat, code_a, code_b) = (case.lat, case.code_a, case.code_b);
                // outcome of the k-th call through this cell's layer
                let mut seq: Vec<(usize, u8)> = vec![(outcome, 0)];
                for (shift, route) in &case.more_calls {
                    seq.push(((outcome + *shift as usize) % 3, *route));
                }
                let outcomes: Vec<usize> = seq.iter().map(|x| x.0).collect();
                let base_id = case.req_id;
                let inner = Scripted::new(log.clone(), 1, move |r, _, _| match outcomes[(r.id.wrapping_sub(base_id) as usize).min(outcomes.len() - 1)] {
                    0 => Step::ok(lat),
                    1 => Step::err(lat, code_a),
                    _ => Step::err(lat, code_b),
                });
                let backup_fail = strat == 5;
                let backup_code = case.backup_code;
                let backup = Scripted::new(log.clone(), BACKUP_BASE, move |_, _, _| {
                    if backup_fail {
                        Step::err(lat, backup_code)
                    } else {
                        Step::ok(lat)
                    }
                });
                let invoked = Arc::new(AtomicU64::new(0));
                let value = Resp {
                    serial: VAL_BASE + case.value_serial,
                    req: zero_req(),
                };
                let asked = Arc::new(AtomicU64::new(0));
                let mut errors_seen = 0u64;
                let name: String = match case.name_kind {
                    0 => "vcheck".into(),
                    1 => "n".repeat(80),
                    2 => "n".repeat(63) + &"\u{e9}".repeat(12),
                    _ => "n".repeat(62) + &"\u{e9}".repeat(12),
                };
                let mut b = FallbackLayer::<Req, Resp, SErr>::builder().name(name);
                let events_seen = Arc::new(AtomicU64::new(0));
                if case.listeners & 1 != 0 {
                    let ev = events_seen.clone();
                    b = b.on_event(move |_e: &tower_resilience_fallback::FallbackEvent| {
                        ev.fetch_add(1, Ordering::SeqCst);
                    });
                }
                if case.handle_first {
                    b = match pred {
                    0 => b,
                    1 => b.handle(|_e: &SErr| true),
                    2 => b.handle(|_e: &SErr| false),
                    3 => b.handle(|e: &SErr| e.code % 2 == 1),
                    _ => {
                        // stateful predicate (a fallback budget, a sampler): it is to be asked once
                        // per inner error
                        let asked = asked.clone();
                        b.handle(move |_e: &SErr| asked.fetch_add(1, Ordering::SeqCst) % 2 == 0)
                    }
                    };
                }
                if case.strategy_decoy {
                    // never to be seen: the cell's own setter below replaces it
                    b = if strat == 0 {
                        b.exception(|e: SErr| SErr {
                            code: e.code + 7_000,
                            serial: e.serial,
                        })
                    } else {
                        b.value(Resp {
                            serial: 666_000_000_000,
                            req: zero_req(),
                        })
                    };
                }
                b = match strat {
                    0 => b.value(value.clone()),
                    1 => {
                        let inv = invoked.clone();
                        b.value_fn(move || {
                            let k = inv.fetch_add(1, Ordering::SeqCst);
                            Resp {
                                serial: VF_BASE + k,
                                req: zero_req(),
                            }
                        })
                    }
                    2 => {
                        let inv = invoked.clone();
                        b.from_error(move |e: &SErr| {
                            inv.fetch_add(1, Ordering::SeqCst);
                            Resp {
                                serial: FE_BASE + e.code as u64 * 1000 + e.serial,
                                req: zero_req(),
                            }
                        })
                    }
                    3 => {
                        let inv = invoked.clone();
                        b.from_request_error(move |r: &Req, e: &SErr| {
                            inv.fetch_add(1, Ordering::SeqCst);
                            Resp {
                                serial: FRE_BASE + e.code as u64 * 1000 + e.serial,
                                req: r.clone(),
                            }
                        })
                    }
                    5 if case.nested_backup => {
                        let second = FallbackLayer::<Req, Resp, SErr>::from_error(|e: &SErr| Resp {
                            serial: NB_BASE + e.code as u64 * 1000 + e.serial,
                            req: zero_req(),
                        });
                        let bk = second.layer(backup.clone());
                        let inv = invoked.clone();
                        b.service(move |r: Req| {
                            inv.fetch_add(1, Ordering::SeqCst);
                            let mut bk = bk.clone();
                            async move {
                                let _ = futures::future::poll_fn(|cx| bk.poll_ready(cx)).await;
                                bk.call(r).await.map_err(|e| match e {
                                    FallbackError::Inner(e) | FallbackError::FallbackFailed(e) => e,
                                })
                            }
                        })
                    }
                    4 | 5 => {
                        let bk = backup.clone();
                        let inv = invoked.clone();
                        b.service(move |r: Req| {
                            inv.fetch_add(1, Ordering::SeqCst);
                            let mut bk = bk.clone();
                            async move { bk.call(r).await }
                        })
                    }
                    _ => {
                        let inv = invoked.clone();
                        b.exception(move |e: SErr| {
                            inv.fetch_add(1, Ordering::SeqCst);
                            SErr {
                                code: e.code + 100,
                                serial: e.serial,
                            }
                        })
                    }
                };
                if !case.handle_first {
                    b = match pred {
                    0 => b,
                    1 => b.handle(|_e: &SErr| true),
                    2 => b.handle(|_e: &SErr| false),
                    3 => b.handle(|e: &SErr| e.code % 2 == 1),
                    _ => {
                        // stateful predicate (a fallback budget, a sampler): it is to be asked once
                        // per inner error
                        let asked = asked.clone();
                        b.handle(move |_e: &SErr| asked.fetch_add(1, Ordering::SeqCst) % 2 == 0)
                    }
                    };
                }
                if case.listeners & 2 != 0 {
                    let ev = events_seen.clone();
                    b = b.on_event(move |_e: &tower_resilience_fallback::FallbackEvent| {
                        ev.fetch_add(1, Ordering::SeqCst);
                    });
                }
                let layer = b.build();
                // an inner service whose readiness check fails with an error the predicate
                // REFUSES: that error has to come back unchanged and the strategy must not run
                if outcome != 0 {
                    let code = if outcome == 1 { case.code_a } else { case.code_b };
                    let refused = match pred {
                        2 => true,
                        3 => code % 2 == 0,
                        _ => false,
                    };
                    if refused {
                        let mut bad = layer.layer(FailReady { code });
                        let inv0 = invoked.load(Ordering::SeqCst);
                        let r = futures::future::poll_fn(|cx| bad.poll_ready(cx)).await;
                        let same = matches!(&r, Err(FallbackError::Inner(e)) if e.code == code && e.serial == READY_SERIAL);
                        if !same {
                            violations.push(format!(
                                "strategy {} / predicate {}: the inner service's readiness error (code {code}), which the predicate refuses, came back as {:?}",
                                STRATEGIES[strat], PREDICATES[pred], r
                            ));
                        }
                        if invoked.load(Ordering::SeqCst) != inv0 {
                            violations.push(format!(
                                "strategy {} / predicate {}: the strategy ran for a readiness error the predicate refuses",
                                STRATEGIES[strat], PREDICATES[pred]
                            ));
                        }
                    }
                }
                let mut svc = layer.layer(inner.clone());
                // groups of calls issued together: singletons, or (overlap modes) the first call alone
                // and all further calls of the cell in flight at once
                let groups: Vec<Vec<usize>> = if case.group_mode == 0 || seq.len() < 3 || pred == 4 {
                    (0..seq.len()).map(|j| vec![j]).collect()
                } else {
                    vec![vec![0], (1..seq.len()).collect()]
                };
                for group in &groups {
                let log_from = log.len();
                let inv_before = invoked.load(Ordering::SeqCst);
                type Fut = std::pin::Pin<Box<dyn std::future::Future<Output = Result<Resp, FallbackError<SErr>>>>>;
                let mut futs: Vec<Option<Fut>> = vec![];
                let mut results: Vec<Option<Result<Resp, FallbackError<SErr>>>> = vec![];
                let mut cancelled: Vec<bool> = vec![];
                for (pos, &j) in group.iter().enumerate() {
                    let route = seq[j].1;
                    let req = Req {
                        id: case.req_id.wrapping_add(j as u32),
                        key: case.req_key,
                        tag: case.req_tag,
                    };
                    let mut other;
                    let target = match route {
                        0 => &mut svc,
                        1 => {
                            other = svc.clone();
                            &mut other
                        }
                        _ => {
                            other = layer.layer(inner.clone());
                            &mut other
                        }
                    };
                    let _ = futures::future::poll_fn(|cx| target.poll_ready(cx)).await;
                    futs.push(Some(Box::pin(target.call(req))));
                    results.push(None);
                    // mode 2: the first call of an overlapping group is dropped once its inner call is over
                    cancelled.push(case.group_mode == 2 && group.len() > 1 && pos == 0);
                }
                // drive with the virtual clock
                let mut rounds = 0u32;
                loop {
                    for k in 0..futs.len() {
                        let Some(f) = futs[k].as_mut() else { continue };
                        if let std::task::Poll::Ready(r) = futures::poll!(f.as_mut()) {
                            results[k] = Some(r);
                            futs[k] = None;
                        } else if cancelled[k] {
                            let id = case.req_id.wrapping_add(group[k] as u32);
                            let inner_over = log.with(|l| {
                                let serial = l.iter().find_map(|e| match e {
                                    Ev::Enter { serial, req, .. } if req.id == id && *serial < BACKUP_BASE => Some(*serial),
                                    _ => None,
                                });
                                serial.map_or(false, |s| l.iter().any(|e| matches!(e, Ev::Done { serial: d, .. } if *d == s)))
                            });
                            if inner_over {
                                futs[k] = None; // dropped while its fallback is pending
                            }
                        }
                    }
                    if futs.iter().all(|f| f.is_none()) {
                        break;
                    }
                    rounds += 1;
                    if rounds > 200 {
                        violations.push(format!(
                            "strategy {} / predicate {}: calls {:?} of the cell did not resolve within 200 ms",
                            STRATEGIES[strat], PREDICATES[pred], group
                        ));
                        break;
                    }
                    crate::vclock::advance_ms(1);
                    tokio::task::yield_now().await;
                }
                let group_snap: Vec<Ev> = log.snapshot().split_off(log_from);
                let group_inv = invoked.load(Ordering::SeqCst) - inv_before;
                let solo = group.len() == 1;
                let mut handled_done = 0u64;
                let mut handled_all = 0u64;
                for (pos, &j) in group.iter().enumerate() {
                let (outcome, route) = seq[j];
                let req = Req {
                    id: case.req_id.wrapping_add(j as u32),
                    key: case.req_key,
                    tag: case.req_tag,
                };
                let Some(result) = results[pos].take() else {
                    // cancelled (or reported above as unresolved): only its side effects count
                    let code = match outcome { 1 => case.code_a, 2 => case.code_b, _ => 0 };
                    if outcome != 0 && match pred { 0 | 1 => true, 2 => false, 3 => code % 2 == 1, _ => true } && strat != 0 {
                        handled_all += 1;
                    }
                    continue;
                };
                let snap: Vec<Ev> = group_snap
                    .iter()
                    .filter(|e| matches!(e, Ev::Enter { req: r, .. } if r.id == req.id))
                    .cloned()
                    .collect();
                let inner_enters: Vec<(u64, Req)> = snap
                    .iter()
                    .filter_map(|e| match e {
                        Ev::Enter { serial, req, .. } if *serial < BACKUP_BASE => Some((*serial, req.clone())),
                        _ => None,
                    })
                    .collect();
                let backup_enters: Vec<(u64, Req)> = snap
                    .iter()
                    .filter_map(|e| match e {
                        Ev::Enter { serial, req, .. } if *serial >= BACKUP_BASE => Some((*serial, req.clone())),
                        _ => None,
                    })
                    .collect();
                let cell = format!(
                    "strategy {} / predicate {} / inner {}{}",
                    STRATEGIES[strat],
                    PREDICATES[pred],
                    ["ok", "error a", "error b"][outcome],
                    if j == 0 {
                        String::new()
                    } else {
                        format!(
                            " (call {} of the cell, through {})",
                            j + 1,
                            ["the same service", "a clone", "a second service of the layer"][route as usize]
                        )
                    }
                );
                if inner_enters.len() != 1 || inner_enters[0].1 != req {
                    violations.push(format!(
                        "{cell}: inner service entered {} times / with a different request",
                        inner_enters.len()
                    ));
                    continue;
                }
                let inner_serial = inner_enters[0].0;
                let code = match outcome {
                    1 => case.code_a,
                    2 => case.code_b,
                    _ => 0,
                };
                let handled = outcome != 0
                    && match pred {
                        0 | 1 => true,
                        2 => false,
                        3 => code % 2 == 1,
                        // asked once per inner error, it accepts the 1st, 3rd, 5th ... of them
                        _ => errors_seen % 2 == 0,
                    };
                if outcome != 0 {
                    errors_seen += 1;
                }
                let n_inv = if solo { group_inv } else { u64::MAX };
                let describe = |r: &Result<Resp, FallbackError<SErr>>| format!("{r:?}");
                if !handled {
                    if (solo && n_inv != 0) || !backup_enters.is_empty() {
                        violations.push(format!(
                            "{cell}: the fallback strategy was invoked although the {} must pass through",
                            if outcome == 0 { "success" } else { "refused error" }
                        ));
                    }
                    let ok = match (&result, outcome) {
                        (Ok(r), 0) => r.serial == inner_serial && r.req == req,
                        (Err(FallbackError::Inner(e)), o) if o != 0 => e.code == code && e.serial == inner_serial,
                        _ => false,
                    };
                    if !ok {
                        violations.push(format!(
                            "{cell}: expected the inner result unchanged, got {}",
                            describe(&result)
                        ));
                    }
                } else {
                    let expected_inv = if strat == 0 { 0 } else { 1 };
                    if strat != 0 {
                        handled_done += 1;
                        handled_all += 1;
                    }
                    if solo && n_inv != expected_inv {
                        violations.push(format!(
                            "{cell}: strategy closure invoked {n_inv} times, expected {expected_inv}"
                        ));
                    }
                    let ok = match (strat, &result) {
                        (0, Ok(r)) => *r == value,
                        (1, Ok(r)) => {
                            r.serial >= VF_BASE + inv_before
                                && r.serial < VF_BASE + inv_before + group.len() as u64
                                && (!solo || r.serial == VF_BASE + inv_before)
                                && r.req == zero_req()
                        }
                        (2, Ok(r)) => r.serial == FE_BASE + code as u64 * 1000 + inner_serial && r.req == zero_req(),
                        (3, Ok(r)) => r.serial == FRE_BASE + code as u64 * 1000 + inner_serial && r.req == req,
                        (4, Ok(r)) => {
                            backup_enters.len() == 1
                                && backup_enters[0].1 == req
                                && r.serial == backup_enters[0].0
                                && r.req == req
                        }
                        (5, Ok(r)) if case.nested_backup => {
                            backup_enters.len() == 1
                                && backup_enters[0].1 == req
                                && r.serial == NB_BASE + backup_code as u64 * 1000 + backup_enters[0].0
                        }
                        (5, Err(FallbackError::FallbackFailed(e))) if !case.nested_backup => {
                            backup_enters.len() == 1
                                && backup_enters[0].1 == req
                                && e.code == backup_code
                                && e.serial == backup_enters[0].0
                        }
                        (6, Err(FallbackError::Inner(e))) => e.code == code + 100 && e.serial == inner_serial,
                        _ => false,
                    };
                    if !ok {
                        violations.push(format!(
                            "{cell}: handled error (code {code}, inner call {inner_serial}, request {req:?}) produced {}, not what the strategy specifies (backup entries: {backup_enters:?})",
                            describe(&result)
                        ));
                    }
                    if strat < 4 || strat == 6 {
                        if !backup_enters.is_empty() {
                            violations.push(format!("{cell}: backup service entered unexpectedly"));
                        }
                    }
                }
                if samples.len() < 3 && handled {
                    samples.push(json!({"cell": cell, "result": describe(&result)}));
                }
                }
                // strategy invocations of an overlapping group: one per handled call (a cancelled
                // call may or may not have got that far)
                if !solo && (group_inv < handled_done || group_inv > handled_all) {
                    violations.push(format!(
                        "strategy {} / predicate {}: {} overlapping calls of which {}..={} had to invoke the strategy, but it was invoked {} times",
                        STRATEGIES[strat], PREDICATES[pred], group.len(), handled_done, handled_all, group_inv
                    ));
                }
                }
            }
        }
    }
    (violations, cells, samples)
}

pub struct C17;
impl Property for C17 {
    type Case = FbCase;
    fn id(&self) -> &'static str {
        "C17"
    }
    fn strategy(&self, tier: Tier) -> BoxedStrategy<FbCase> {
        case_strategy(tier)
    }
    fn budget(&self, tier: Tier) -> (u32, usize) {
        match tier {
            Tier::Quick => (200_000, 8),
            Tier::Thorough => (3_000_000, 16),
        }
    }
    fn run(&self, case: &FbCase) -> Report {
        let (violations, cells, samples) = sim::run_case(run_grid(case));
        let mut r = Report::default();
        if let Some(m) = violations.first() {
            r.fail(m.clone());
        }
        r.nontrivial = true;
        r.class("full_grid_105_cells");
        if case.listeners != 0 {
            r.class("event_listeners_registered");
        }
        if case.nested_backup {
            r.class("backup_goes_through_a_second_fallback_layer");
        }
        if case.strategy_decoy {
            r.class("another_strategy_set_first_then_overridden");
        }
        if case.name_kind != 0 {
            r.class("long_instance_name");
        }
        if !case.more_calls.is_empty() {
            r.class("several_calls_per_cell");
        }
        if case.more_calls.iter().any(|c| c.1 == 2) {
            r.class("second_service_of_the_layer");
        }
        if case.group_mode >= 1 && case.more_calls.len() >= 2 {
            r.class("overlapping_calls");
            if case.group_mode == 2 {
                r.class("call_dropped_while_fallback_pending");
            }
        }
        r.trace = json!({"cells_enumerated": cells, "handled_error_samples": samples});
        r
    }
    fn rule(&self) -> String {
        "every generated case (request id/key/tag, value payload, two inner error codes and a backup error code of either parity, inner latency 0-2 ms) enumerates the complete grid {value, value_fn, from_error, from_request_error, backup service ok, backup service failing, exception} x {no predicate, accept all, refuse all, accept odd codes, stateful: accept every other time it is asked} x {inner ok, error a, error b} = 105 cells (exhaustive for the finite part); each cell's layer then takes 0-3 further generated calls (other outcomes) through the same service, a clone or a second service built from the same layer, so that per-invocation strategies (value_fn counter) are exercised repeatedly; in two of four cases those further calls are in flight together, and in one of four the first of them is dropped while its fallback is pending. Oracle: pure reference function: success or refused error => inner result unchanged (serial/code identity) and no strategy or backup invocation; handled error => exactly the strategy's value for this request and this error (value identity, error encoded in the response, request echoed, backup entered once with this request, FallbackFailed carrying the backup's error, transformed error); inner service entered exactly once with the identical request.Also generated: event listeners (none / first / last / both), the failing backup routed through a second fallback layer (the outer call then succeeds with that layer's response), another strategy set first and overridden. Non-trivial: every case contains all handled-error cells; distinct by hash of the payloads".into()
    }
    fn assumptions(&self) -> Vec<String> {
        vec!["one request per grid cell; payloads are drawn, the grid is enumerated".into()]
    }
    fn exhaustive(&self) -> bool {
        true
    }
}
