//! C08: retry budgets never grant more than they were funded, under every interleaving of the
//! atomic steps of concurrent try_withdraw / deposit calls; deposits and withdrawals behave as if
//! executed one at a time (exact for the token bucket; balance-level for AIMD).

use crate::runner::{Property, Report, Tier};
use crate::sched;
use proptest::prelude::*;
use serde::{Deserialize, Serialize};
use serde_json::json;
use std::collections::HashSet;
use std::sync::{Arc, Mutex};
use tower_resilience_retry::{AimdBudget, RetryBudget, TokenBucketBudget};

#[derive(Clone, Debug, Serialize, Deserialize, PartialEq)]
pub enum Kind {
    Token { max: usize, initial: usize },
    Aimd { min: usize, max: usize, deposit: usize, cost: usize, factor10: u8 },
}

#[derive(Clone, Debug, Serialize, Deserialize)]
pub struct BudgetCase {
    pub kind: Kind,
    /// per thread: ops, true = try_withdraw, false = deposit
    pub threads: Vec<Vec<bool>>,
    pub schedule: Vec<u8>,
    /// how often the monitor reads `balance()` while the threads run: 0 = after every atomic step,
    /// k = after every k-th step, 255 = never (only once everything has finished). Reading the
    /// balance is itself an operation on the budget, so a history without readers in between is
    /// a different history.
    #[serde(default)]
    pub observe: u8,
}

fn case_strategy(tier: Tier) -> BoxedStrategy<BudgetCase> {
    let (tmax, omax) = match tier {
        Tier::Quick => (4usize, 4usize),
        Tier::Thorough => (4, 5),
    };
    let kind = prop_oneof![
        (0usize..=4).prop_flat_map(|max| (Just(max), 0..=max)).prop_map(|(max, initial)| Kind::Token { max, initial }),
        (0usize..=6, 0usize..=6, 1usize..=3, 1usize..=3, prop_oneof![Just(0u8), Just(5u8), Just(10u8), 0u8..=10])
            .prop_map(|(a, b, deposit, cost, factor10)| Kind::Aimd { min: a.min(b), max: a.max(b), deposit, cost, factor10 }),
    ];
    // preemption-bounded (mostly small bytes) and uniformly random schedules
    let schedule = prop_oneof![
        prop::collection::vec(prop_oneof![5 => 0u8..160, 1 => 160u8..=255], 0..=120),
        prop::collection::vec(any::<u8>(), 0..=120),
    ];
    let general = (
        kind,
        prop::collection::vec(prop::collection::vec(any::<bool>(), 1..=omax), 2..=tmax),
        schedule,
        prop_oneof![2 => Just(0u8), 2 => Just(255u8), 1 => 2u8..=6],
    )
        .prop_map(|(kind, threads, schedule, observe)| BudgetCase {
            kind,
            threads,
            schedule,
            observe,
        });
    // one caller against busy neighbours: a single withdrawal on a well-funded budget while two
    // or three other threads keep writing (its compare-exchange loses again and again), under a
    // uniformly random schedule
    let crowded = (
        prop_oneof![
            (3usize..=6).prop_map(|max| Kind::Token { max, initial: max }),
            (4usize..=6, 1usize..=2, 1usize..=2).prop_map(|(max, deposit, cost)| Kind::Aimd { min: 0, max, deposit, cost, factor10: 10 }),
        ],
        prop::collection::vec(prop::collection::vec(any::<bool>(), 3..=omax.max(4)), 2..=3),
        prop::collection::vec(any::<u8>(), 40..=160),
        prop_oneof![1 => Just(0u8), 2 => Just(255u8)],
    )
        .prop_map(|(kind, mut threads, schedule, observe)| {
            threads.insert(0, vec![true]);
            BudgetCase {
                kind,
                threads,
                schedule,
                observe,
            }
        });
    prop_oneof![4 => general, 1 => crowded].boxed()
}

#[derive(Clone, Debug, Serialize)]
enum OpEv {
    Start { thread: usize, op: usize, withdraw: bool, yields_at_start: u64 },
    End { thread: usize, op: usize, withdraw: bool, granted: bool },
}

struct Params {
    initial: u64,
    max: u64,
    cost: u64,
    deposit: u64,
    /// AIMD: ceiling may be anything in [min, max] at each deposit; token bucket: min == max
    ceil_min: u64,
}

pub struct Verdict {
    pub violation: Option<String>,
    pub nontrivial: bool,
    pub preemptions: usize,
    pub steps: usize,
    pub events: Vec<serde_json::Value>,
}

pub fn run_budget(case: &BudgetCase) -> Verdict {
    let (budget, p): (Arc<dyn RetryBudget>, Params) = match &case.kind {
        Kind::Token { max, initial } => (
            Arc::new(TokenBucketBudget::new(0.0, *max, *initial)),
            Params {
                initial: *initial as u64,
                max: *max as u64,
                cost: 1,
                deposit: 1,
                ceil_min: *max as u64,
            },
        ),
        Kind::Aimd {
            min,
            max,
            deposit,
            cost,
            factor10,
        } => (
            Arc::new(AimdBudget::new(
                *min,
                *max,
                *deposit,
                *cost,
                *factor10 as f64 / 10.0,
            )),
            Params {
                initial: *max as u64,
                max: *max as u64,
                cost: *cost as u64,
                deposit: *deposit as u64,
                ceil_min: *min as u64,
            },
        ),
    };
    let events: Arc<Mutex<Vec<OpEv>>> = Arc::new(Mutex::new(vec![]));
    // per-thread yield counters are read by the body through this mirror (updated by the monitor)
    let yields_mirror: Arc<Mutex<Vec<u64>>> = Arc::new(Mutex::new(vec![0; case.threads.len()]));
    let mut bodies: Vec<Box<dyn FnOnce() + Send>> = vec![];
    for (ti, ops) in case.threads.iter().enumerate() {
        let b = budget.clone();
        let ev = events.clone();
        let ops = ops.clone();
        let ym = yields_mirror.clone();
        bodies.push(Box::new(move || {
            for (oi, &w) in ops.iter().enumerate() {
                let y = ym.lock().unwrap()[ti];
                ev.lock().unwrap().push(OpEv::Start {
                    thread: ti,
                    op: oi,
                    withdraw: w,
                    yields_at_start: y,
                });
                let granted = if w {
                    b.try_withdraw()
                } else {
                    b.deposit();
                    false
                };
                ev.lock().unwrap().push(OpEv::End {
                    thread: ti,
                    op: oi,
                    withdraw: w,
                    granted,
                });
            }
        }));
    }
    let mut nontrivial = false;
    let mon_budget = budget.clone();
    let mon_events = events.clone();
    let mon_y = yields_mirror.clone();
    let pm = &p;
    let observe = case.observe;
    let outcome = sched::explore(bodies, &case.schedule, |view| {
        *mon_y.lock().unwrap() = view.yields.to_vec();
        let evs = mon_events.lock().unwrap();
        let mut grants = 0u64;
        let mut deposits_started = 0u64;
        // in-progress ops per thread: (yields at start)
        let mut open: Vec<Option<u64>> = vec![None; view.yields.len()];
        for e in evs.iter() {
            match e {
                OpEv::Start {
                    thread,
                    withdraw,
                    yields_at_start,
                    ..
                } => {
                    if !*withdraw {
                        deposits_started += 1;
                    }
                    open[*thread] = Some(*yields_at_start);
                }
                OpEv::End {
                    thread, granted, ..
                } => {
                    if *granted {
                        grants += 1;
                    }
                    open[*thread] = None;
                }
            }
        }
        // non-trivial: an op of another thread just ended while some thread sits in the middle
        // of an op of which it has already executed at least one atomic step
        if let (Some(ran), Some(OpEv::End { thread, .. })) = (view.ran, evs.last()) {
            if *thread == ran {
                for (t, o) in open.iter().enumerate() {
                    if t != ran {
                        if let Some(y0) = o {
                            if view.yields[t] >= y0 + 2 {
                                nontrivial = true;
                            }
                        }
                    }
                }
            }
        }
        let observe_now = match observe {
            0 => true,
            255 => false,
            k => view.step as u64 % k as u64 == 0,
        };
        // without a reading, the grants alone must still be covered by the funding
        let balance = if observe_now { mon_budget.balance() as u64 } else { 0 };
        // u128: a corrupted (wrapped) balance must be reported, not overflow the oracle
        let funded = pm.initial as u128 + deposits_started as u128 * pm.deposit as u128;
        if grants as u128 * pm.cost as u128 + balance as u128 > funded {
            return Some(format!(
                "after atomic step {}: {} retries granted x cost {} + balance {} = {} exceeds initial {} + {} deposits x {} = {}",
                view.step, grants, pm.cost, balance, grants as u128 * pm.cost as u128 + balance as u128, pm.initial, deposits_started, pm.deposit, funded
            ));
        }
        if balance > pm.max {
            return Some(format!(
                "after atomic step {}: balance {} exceeds the configured maximum {}",
                view.step, balance, pm.max
            ));
        }
        None
    });
    let mut violation = outcome.violation.clone();
    if let Some(pmsg) = &outcome.panic {
        violation.get_or_insert(format!("budget operation panicked: {pmsg}"));
    }
    // ---- linearizability of the completed history (real-time order respected)
    let evs = events.lock().unwrap().clone();
    if violation.is_none() {
        let final_balance = budget.balance() as u64;
        if let Some(msg) = linearizable(&evs, &p, final_balance) {
            violation = Some(msg);
        }
    }
    Verdict {
        violation,
        nontrivial,
        preemptions: outcome.preemptions,
        steps: outcome.steps,
        events: evs.iter().take(60).map(|e| json!(e)).collect(),
    }
}

/// Brute-force linearizability: is there a total order of the operations, consistent with
/// real-time precedence, whose sequential execution yields the observed results and final balance?
/// The state is a *set* of possible balances (AIMD: the ceiling applied by a deposit may be any
/// value in [ceil_min, max]).
fn linearizable(evs: &[OpEv], p: &Params, final_balance: u64) -> Option<String> {
    // ops: (start idx, end idx, withdraw, granted)
    let mut ops: Vec<(usize, usize, bool, bool)> = vec![];
    for (i, e) in evs.iter().enumerate() {
        if let OpEv::Start { thread, op, withdraw, .. } = e {
            let end = evs.iter().enumerate().find_map(|(j, f)| match f {
                OpEv::End { thread: t2, op: o2, granted, .. } if t2 == thread && o2 == op => Some((j, *granted)),
                _ => None,
            });
            if let Some((j, g)) = end {
                ops.push((i, j, *withdraw, g));
            }
        }
    }
    let n = ops.len();
    if n > 20 {
        return None;
    }
    let mut seen: HashSet<(u32, u64)> = HashSet::new();
    fn step(p: &Params, bal: u64, withdraw: bool, granted: bool) -> Vec<u64> {
        if withdraw {
            if bal >= p.cost {
                if granted { vec![bal - p.cost] } else { vec![] }
            } else if granted {
                vec![]
            } else {
                vec![bal]
            }
        } else {
            let mut out = vec![];
            for c in p.ceil_min..=p.max {
                let v = bal.saturating_add(p.deposit).min(c);
                if !out.contains(&v) {
                    out.push(v);
                }
            }
            out
        }
    }
    fn dfs(
        ops: &[(usize, usize, bool, bool)],
        p: &Params,
        done: u32,
        bal: u64,
        final_balance: u64,
        seen: &mut HashSet<(u32, u64)>,
    ) -> bool {
        let n = ops.len();
        if done == (1u32 << n) - 1 {
            return bal == final_balance;
        }
        if !seen.insert((done, bal)) {
            return false;
        }
        // an op may go next if no other pending op ended before it started
        let min_end = (0..n)
            .filter(|&i| done & (1 << i) == 0)
            .map(|i| ops[i].1)
            .min()
            .unwrap();
        for i in 0..n {
            if done & (1 << i) != 0 || ops[i].0 > min_end {
                continue;
            }
            for nb in step(p, bal, ops[i].2, ops[i].3) {
                if dfs(ops, p, done | (1 << i), nb, final_balance, seen) {
                    return true;
                }
            }
        }
        false
    }
    if n == 0 {
        return None;
    }
    if dfs(&ops, p, 0, p.initial, final_balance, &mut seen) {
        None
    } else {
        let summary: Vec<String> = ops
            .iter()
            .map(|o| format!("{}{}", if o.2 { "withdraw" } else { "deposit" }, if o.2 { if o.3 { "=granted" } else { "=denied" } } else { "" }))
            .collect();
        Some(format!(
            "no one-at-a-time execution of [{}] from balance {} explains the observed results and the final balance {}",
            summary.join(", "),
            p.initial,
            final_balance
        ))
    }
}

pub struct C08;
impl Property for C08 {
    type Case = BudgetCase;
    fn id(&self) -> &'static str {
        "C08"
    }
    fn strategy(&self, tier: Tier) -> BoxedStrategy<BudgetCase> {
        case_strategy(tier)
    }
    fn budget(&self, tier: Tier) -> (u32, usize) {
        match tier {
            Tier::Quick => (40_000, 8),
            Tier::Thorough => (1_000_000, 16),
        }
    }
    fn run(&self, case: &BudgetCase) -> Report {
        let v = run_budget(case);
        let mut r = Report::default();
        if let Some(m) = &v.violation {
            r.fail(m.clone());
        }
        r.nontrivial = v.nontrivial;
        if v.preemptions > 0 {
            r.class("has_preemption");
        }
        if v.preemptions >= 3 {
            r.class("three_or_more_preemptions");
        }
        if v.nontrivial {
            r.class("op_completed_inside_another_threads_op");
        }
        if case.observe != 0 {
            r.class("balance_not_read_after_every_step");
        }
        r.class(match case.kind {
            Kind::Token { .. } => "token_bucket",
            Kind::Aimd { .. } => "aimd",
        });
        r.trace = json!({"op_events": v.events, "atomic_steps": v.steps, "preemptions": v.preemptions});
        r
    }
    fn rule(&self) -> String {
        "proptest-generated (budget kind and parameters: token bucket max 0-4 / initial <= max; AIMD min <= max <= 6, deposit 1-3, cost 1-3, factor 0-1), 2-4 logical threads x 1-4/5 operations (try_withdraw / deposit), and a schedule (choice list; preemption-bounded and uniformly random generators); one case in five is a single withdrawal on a well-funded budget next to two or three busy threads under a uniformly random schedule, and how often the monitor reads balance() in between (every step / every k-th / never). The real budget code runs on OS threads; every instrumented atomic operation is a scheduling point owned by the case. After every atomic step: grants x cost + balance <= initial + started deposits x amount, balance <= configured maximum; at quiescence the completed history must be linearizable (brute force, real-time order respected) against a sequential model - exact for the token bucket, balance-only with a free ceiling in [min,max] for AIMD - including the final balance. Non-trivial: some thread's operation completes while another thread is in the middle of an operation of which it has executed at least one atomic step; distinct by hash of the case".into()
    }
    fn assumptions(&self) -> Vec<String> {
        vec![
            "sequentially consistent interleavings of the atomic operations; Relaxed reorderings beyond per-location coherence are not explored".into(),
            "fetch_update is modelled the way std implements it: a load and a compare-exchange loop, each a scheduling point (its closure may run more than once)".into(),
        ]
    }
}
