//! C02 (at most limit_for_period admissions per window, for immediate and waited admissions alike)
//! and C15 (every call decided within timeout_duration; rejected calls go nowhere; immediate
//! admission when there is spare capacity; idle rule). One history, one interpreter, two oracles.

use crate::runner::{Property, Report, Tier};
use crate::sim::{self, Ev, Log, Outcome, Req, Sim, TaskState};
use crate::svc::{Scripted, Step};
use proptest::prelude::*;
use serde::{Deserialize, Serialize};
use serde_json::json;
use std::time::Duration;
use tower::{Layer, Service};
use tower_resilience_ratelimiter::{RateLimiterLayer, RateLimiterServiceError, WindowType};

/// A duration expressed relative to the refresh period P, so that cases need no dependent
/// generation (and shrink well): value = mul * P / 2 + off, floored at zero.
#[derive(Clone, Copy, Debug, Serialize, Deserialize, PartialEq)]
pub struct Rel {
    pub half_periods: u8,
    pub off: i64,
}

impl Rel {
    pub fn ms(&self, p: u64) -> u64 {
        ((self.half_periods as i64) * (p as i64) / 2 + self.off).max(0) as u64
    }
}

fn rel(half_max: u8) -> BoxedStrategy<Rel> {
    prop_oneof![
        4 => (0..=half_max).prop_map(|h| Rel { half_periods: h, off: 0 }),
        2 => (0..=half_max, -1i64..=1).prop_map(|(h, off)| Rel { half_periods: h, off }),
        2 => (0..=half_max, 0i64..=60).prop_map(|(h, off)| Rel { half_periods: h, off }),
    ]
    .boxed()
}

#[derive(Clone, Debug, Serialize, Deserialize)]
pub struct RlCaller {
    /// gap to the previous caller's arrival (first: to the creation of the limiter)
    pub gap: Rel,
    pub clone: u8,
    pub lat: u64,
    /// cancel this many ms after arrival (>= 1)
    pub cancel_after: Option<u64>,
    /// the response future is obtained from call() this many ms before it is first polled
    /// (the arrival, for every rule below, is the first poll: that is when a lazy future starts)
    #[serde(default)]
    pub call_early: u64,
}

#[derive(Clone, Debug, Serialize, Deserialize)]
pub struct RlCase {
    /// 0 fixed, 1 sliding log, 2 sliding counter
    pub window: u8,
    pub limit: usize,
    pub period: u64,
    pub timeout: Rel,
    /// timeout_duration(Duration::MAX): callers wait for as long as it takes (nobody is rejected)
    #[serde(default)]
    pub timeout_forever: bool,
    /// order in which the builder setters are called (see gen::apply_in_order)
    #[serde(default)]
    pub setter_order: u8,
    /// the limiter is built this many microseconds after a millisecond tick, so that its window
    /// boundaries lie off the grid on which callers arrive (arrivals a fraction of a millisecond
    /// before a boundary)
    #[serde(default)]
    pub build_offset_us: u32,
    pub clones: u8,
    pub callers: Vec<RlCaller>,
    pub order: Vec<u8>,
    /// executor stall: from `start` (relative to the period) nothing is polled for `len`; timers
    /// that fall due in between are seen late, arrivals inside the stall happen at its end
    #[serde(default)]
    pub stall: Option<(Rel, Rel)>,
    /// the wrapped service reports itself not ready from `start` for `len` (relative to the
    /// period); callers arriving in that interval make their call at its end (they wait for
    /// readiness first, as the Service contract asks). Ignored when the case has a stall.
    #[serde(default)]
    pub busy: Option<(Rel, Rel)>,
    /// every kind of event listener is registered on the layer
    #[serde(default)]
    pub listeners: bool,
    /// C15 only: instead of a simulated history, clones of one limiter are hammered from real OS
    /// threads (see crate::stress)
    #[serde(default)]
    pub stress: Option<RlStress>,
    /// the layer and every service handle are dropped right after the last call was made (only
    /// the response futures are left, some of them still waiting for a permit)
    #[serde(default)]
    pub drop_services: bool,
    /// callers (by index, mod 64) whose first poll starts on an exhausted cooperative budget
    #[serde(default)]
    pub starve_mask: u64,
    /// a window that (practically) never ends: refresh_period = 1 Duration::MAX, 2 u64::MAX s,
    /// 3 i64::MAX s, 4 three hundred years (0 = the case's ordinary period). Callers still arrive
    /// at instants derived from the ordinary period. At most limit_for_period calls are ever
    /// admitted; all others are rejected in their arrival instant.
    /// 5-8: a period with a sub-millisecond part: 5 = 800 us, 6 = 200 us, 7 = period + 900 us,
    /// 8 = period + 100 us. Within one instant at most limit_for_period calls are admitted; for
    /// the sliding log any limit+1 consecutive admissions span at least the period (rounded up
    /// to the whole milliseconds on which callers arrive).
    #[serde(default)]
    pub period_huge: u8,
}

#[derive(Clone, Debug, Serialize, Deserialize)]
pub struct RlStress {
    pub window: u8,
    pub threads: usize,
    pub iters: u32,
    /// None: the window holds more permits than calls are made (nobody may be rejected);
    /// Some(l): l permits in a window that never ends (exactly l calls are admitted)
    pub limit: Option<usize>,
    /// timeout_duration in ms (0 = reject at once)
    pub timeout_ms: u64,
}

fn stress_strategy(tier: Tier) -> BoxedStrategy<RlCase> {
    let iters = match tier {
        Tier::Quick => 4_000u32,
        Tier::Thorough => 30_000,
    };
    (0u8..3, 2usize..=8, prop_oneof![4 => Just(None), 2 => (1usize..=2000).prop_map(Some), 1 => (65_000usize..=70_000).prop_map(Some)], prop_oneof![2 => Just(0u64), 1 => 1u64..=5])
        .prop_map(move |(window, threads, limit, timeout_ms)| RlCase {
            window,
            limit: 1,
            period: 10,
            timeout: Rel { half_periods: 0, off: 0 },
            timeout_forever: false,
            setter_order: 0,
            build_offset_us: 0,
            clones: 1,
            callers: vec![],
            order: vec![],
            stall: None,
            busy: None,
            listeners: false,
            drop_services: false,
            starve_mask: 0,
            period_huge: 0,
            stress: Some(RlStress {
                window,
                threads,
                // enough calls to go past a large limit
                iters: match limit {
                    Some(l) if l > 60_000 => iters.max(((l + 2_000) / threads) as u32),
                    _ => iters,
                },
                limit,
                // a limited window with a non-zero timeout would make callers wait for a window
                // that never comes
                timeout_ms: if limit.is_some() { 0 } else { timeout_ms },
            }),
        })
        .boxed()
}

/// Real-thread stress of one rate limiter. The window lasts an hour of a clock that does not move,
/// so "the current window has spare capacity" is exactly "fewer than limit admissions so far".
pub fn run_rl_stress(st: &RlStress) -> Report {
    use std::future::Future;
    use std::sync::atomic::{AtomicUsize, Ordering};
    use std::sync::Arc;
    let mut r = Report::default();
    let entered = Arc::new(AtomicUsize::new(0));
    let e2 = entered.clone();
    let inner = tower::service_fn(move |_: ()| {
        e2.fetch_add(1, Ordering::SeqCst);
        async { Ok::<(), crate::svc::SErr>(()) }
    });
    let total = st.threads * st.iters as usize;
    let limit = st.limit.unwrap_or(total + 1000);
    let layer = RateLimiterLayer::builder()
        .limit_for_period(limit)
        .refresh_period(Duration::from_secs(3600))
        .timeout_duration(Duration::from_millis(st.timeout_ms))
        .window_type(match st.window {
            0 => WindowType::Fixed,
            1 => WindowType::SlidingLog,
            _ => WindowType::SlidingCounter,
        })
        .build();
    let base = layer.layer(inner);
    let admitted = Arc::new(AtomicUsize::new(0));
    let rejected = Arc::new(AtomicUsize::new(0));
    let undecided = Arc::new(AtomicUsize::new(0));
    let (a2, r2, u2) = (admitted.clone(), rejected.clone(), undecided.clone());
    let iters = st.iters;
    let proto = std::sync::Mutex::new(base.clone());
    let panicked = crate::stress::run_threads(st.threads, move |_| {
        let mut svc = proto.lock().unwrap().clone();
        let waker = futures::task::noop_waker();
        let mut cx = std::task::Context::from_waker(&waker);
        for _ in 0..iters {
            if !matches!(svc.poll_ready(&mut cx), std::task::Poll::Ready(Ok(()))) {
                continue;
            }
            let mut f = Box::pin(svc.call(()));
            match f.as_mut().poll(&mut cx) {
                std::task::Poll::Ready(Ok(())) => a2.fetch_add(1, Ordering::Relaxed),
                std::task::Poll::Ready(Err(_)) => r2.fetch_add(1, Ordering::Relaxed),
                std::task::Poll::Pending => u2.fetch_add(1, Ordering::Relaxed),
            };
        }
    });
    let (a, rej, und, ent) = (
        admitted.load(Ordering::SeqCst),
        rejected.load(Ordering::SeqCst),
        undecided.load(Ordering::SeqCst),
        entered.load(Ordering::SeqCst),
    );
    let what = format!(
        "{} threads x {} calls through clones of one {} limiter ({} permits in the current window, timeout_duration {} ms)",
        st.threads,
        st.iters,
        ["fixed-window", "sliding-log", "sliding-counter"][st.window as usize % 3],
        limit,
        st.timeout_ms
    );
    let want = total.min(limit);
    if a != want || rej != total - want || und != 0 {
        r.fail(format!(
            "{what}: {a} admitted, {rej} rejected, {und} undecided at their first poll; with spare capacity a call is admitted at once, so exactly {want} are admitted and {} rejected",
            total - want
        ));
    }
    if ent != a {
        r.fail(format!("{what}: {a} calls admitted but the wrapped service was entered {ent} times"));
    }
    if let Some(p) = panicked {
        r.fail(format!("a rate limiter call panicked on a stress thread: {p}"));
    }
    r.nontrivial = true;
    r.class("real_thread_stress");
    r.trace = json!({"admitted": a, "rejected": rej, "undecided": und, "entered": ent, "stress": st});
    r
}

/// Periods P (ms) for which the f64 quotient (2P)/P evaluates below 2.0 (sliding-counter bucket
/// arithmetic is sensitive to these); computed, not hard-coded.
fn float_unlucky_periods() -> Vec<u64> {
    (1u64..1000)
        .filter(|&p| {
            let a = Duration::from_millis(2 * p).as_secs_f64();
            let b = Duration::from_millis(p).as_secs_f64();
            a / b < 2.0
        })
        .collect()
}

fn case_strategy(tier: Tier) -> BoxedStrategy<RlCase> {
    let callers_hi = match tier {
        Tier::Quick => 14usize,
        Tier::Thorough => 24,
    };
    let unlucky = float_unlucky_periods();
    let period = if unlucky.is_empty() {
        prop_oneof![(1u64..=10).prop_map(|k| k * 10), 10u64..=120].boxed()
    } else {
        let n = unlucky.len();
        prop_oneof![
            5 => (1u64..=10).prop_map(|k| k * 10),
            4 => 10u64..=120,
            1 => 121u64..=600,
            2 => (0..n).prop_map(move |i| unlucky[i]),
        ]
        .boxed()
    };
    let gap = prop_oneof![
        5 => Just(Rel { half_periods: 0, off: 0 }),
        5 => rel(8),
    ];
    let caller = (
        gap,
        0u8..3,
        prop_oneof![3 => Just(0u64), 1 => 0u64..=20],
        prop_oneof![
            8 => Just(None),
            2 => (1u64..=200).prop_map(Some),
        ],
        prop_oneof![6 => Just(0u64), 1 => 1u64..=30, 1 => (1u64..=20).prop_map(|k| k * 10)],
    )
        .prop_map(|(gap, clone, lat, cancel_after, call_early)| RlCaller {
            gap,
            clone,
            lat,
            cancel_after,
            call_early,
        });
    (
        0u8..3,
        1usize..=5,
        period,
        rel(6),
        1u8..=3,
        prop::collection::vec(caller, 1..=callers_hi),
        prop::collection::vec(any::<u8>(), 0..=40),
        prop_oneof![3 => Just(None), 1 => (rel(10), rel(5)).prop_map(Some)],
        (
            prop::bool::weighted(0.08),
            0u8..8,
            prop_oneof![4 => Just(0u32), 1 => prop_oneof![Just(1u32), Just(300u32), Just(999u32), 1u32..=999]],
            prop_oneof![4 => Just(None), 1 => (rel(8), rel(3)).prop_map(Some)],
            prop::bool::weighted(0.3),
            prop::bool::weighted(0.25),
            prop_oneof![4 => Just(0u64), 1 => (0u64..64).prop_map(|k| 1 << k), 1 => any::<u64>()],
            prop_oneof![12 => Just(0u8), 1 => 1u8..=4, 1 => 5u8..=8],
        ),
    )
        .prop_map(
            |(window, limit, period, timeout, clones, callers, order, stall, (timeout_forever, setter_order, build_offset_us, busy, listeners, drop_services, starve_mask, period_huge))| RlCase {
                window,
                limit,
                period,
                timeout,
                timeout_forever,
                setter_order,
                build_offset_us,
                clones,
                callers,
                order,
                busy: if stall.is_some() { None } else { busy },
                listeners,
                stress: None,
                drop_services,
                starve_mask,
                period_huge,
                stall,
            },
        )
        .boxed()
}

fn map_outcome(r: Result<crate::svc::Resp, RateLimiterServiceError<crate::svc::SErr>>) -> Outcome {
    match r {
        Ok(resp) => Outcome::Ok {
            serial: resp.serial,
            req: resp.req,
        },
        Err(RateLimiterServiceError::Inner(e)) => Outcome::Inner {
            code: e.code,
            serial: e.serial,
        },
        Err(RateLimiterServiceError::RateLimited) => Outcome::Layer("RateLimited".into()),
    }
}

#[derive(Default)]
pub struct Verdict {
    pub c02: Vec<String>,
    pub c15: Vec<String>,
    pub classes: Vec<&'static str>,
    pub nontrivial_c02: bool,
    pub nontrivial_c15: bool,
    pub log: Vec<Ev>,
}

/// Window-partition witness (fixed window, sliding counter): can the admissions, taken in log
/// order, be cut into consecutive groups of at most `limit`, with cut instants at least `p` apart,
/// each cut lying between the last admission of one group and the first of the next?
/// `None` = no such partition exists.
pub fn partition_witness(adm: &[u64], limit: usize, p: u64) -> Option<Vec<usize>> {
    let n = adm.len();
    if n == 0 {
        return Some(vec![]);
    }
    const NEG: i64 = i64::MIN / 4;
    // e[j] = earliest feasible cut opening a group whose first admission is j (None = infeasible)
    let mut e: Vec<Option<i64>> = vec![None; n + 1];
    let mut from: Vec<usize> = vec![usize::MAX; n + 1];
    e[0] = Some(NEG);
    for j in 0..n {
        let Some(ej) = e[j] else { continue };
        for k in (j + 1)..=(j + limit).min(n) {
            if k == n {
                // last group, open-ended
                if from[n] == usize::MAX {
                    from[n] = j;
                    e[n] = Some(0);
                }
                continue;
            }
            // group j..k-1, next cut between adm[k-1] and adm[k]
            // an instant belongs to exactly one window: equal timestamps are never separated
            if adm[k - 1] == adm[k] {
                continue;
            }
            let earliest = (ej.saturating_add(p as i64)).max(adm[k - 1] as i64);
            if earliest <= adm[k] as i64 {
                match e[k] {
                    Some(cur) if cur <= earliest => {}
                    _ => {
                        e[k] = Some(earliest);
                        from[k] = j;
                    }
                }
            }
        }
    }
    e[n]?;
    let mut cuts = vec![];
    let mut k = n;
    while k != 0 && from[k] != usize::MAX {
        cuts.push(from[k]);
        k = from[k];
    }
    cuts.reverse();
    Some(cuts)
}

pub fn run_rl(case: &RlCase) -> Verdict {
    if case.period_huge != 0 {
        return sim::run_case(interp_never_ending(case));
    }
    sim::run_case(interp(case))
}

/// The window never ends (see `RlCase::period_huge`): a plain history of arrivals, no
/// cancellations or stalls.
async fn interp_never_ending(case: &RlCase) -> Verdict {
    let mut v = Verdict::default();
    let log = Log::new();
    let mut sim = Sim::new(log.clone(), case.order.clone());
    let p = case.period;
    let limit = case.limit;
    let timeout = case.timeout.ms(p);
    let lats: Vec<u64> = case.callers.iter().map(|c| c.lat).collect();
    let inner = Scripted::new(log.clone(), 1, move |req, _, _| {
        Step::ok(lats.get(req.id as usize).copied().unwrap_or(0))
    });
    let fine = case.period_huge >= 5;
    let huge = match case.period_huge {
        1 => Duration::MAX,
        2 => Duration::from_secs(u64::MAX),
        3 => Duration::from_secs(i64::MAX as u64),
        4 => Duration::from_secs(300 * 365 * 86_400),
        5 => Duration::from_micros(800),
        6 => Duration::from_micros(200),
        7 => Duration::from_millis(p) + Duration::from_micros(900),
        _ => Duration::from_millis(p) + Duration::from_micros(100),
    };
    // the period in whole milliseconds, rounded up
    let p_up = if fine { (huge.as_micros() as u64 + 999) / 1000 } else { 0 };
    let layer = RateLimiterLayer::builder()
        .limit_for_period(limit)
        .refresh_period(huge)
        .timeout_duration(Duration::from_millis(timeout))
        .window_type(match case.window {
            0 => WindowType::Fixed,
            1 => WindowType::SlidingLog,
            _ => WindowType::SlidingCounter,
        })
        .build();
    let base = layer.layer(inner.clone());
    let mut clones: Vec<_> = (0..case.clones).map(|_| base.clone()).collect();
    let n = case.callers.len();
    let mut at = vec![0u64; n];
    let mut acc = 0u64;
    for (i, c) in case.callers.iter().enumerate() {
        acc += c.gap.ms(p);
        at[i] = acc;
    }
    let horizon = acc + timeout + 40 + if fine { 2 * p_up } else { 0 };
    let mut task: Vec<Option<usize>> = vec![None; n];
    for t in 0..=horizon {
        if t > 0 {
            sim.begin_instant().await;
        }
        for i in 0..n {
            if at[i] == t {
                let req = Req {
                    id: i as u32,
                    key: 0,
                    tag: 0xA000 + i as u64,
                };
                let s = &mut clones[(case.callers[i].clone % case.clones) as usize];
                let _ = futures::future::poll_fn(|cx| s.poll_ready(cx)).await;
                let fut = Box::pin(s.call(req));
                task[i] = Some(sim.spawn_call(fut, map_outcome));
            }
        }
        sim.settle().await;
    }
    if fine {
        let snap = log.snapshot();
        let adm_t: Vec<u64> = snap
            .iter()
            .filter_map(|e| match e {
                Ev::Enter { t, .. } => Some(*t),
                _ => None,
            })
            .collect();
        let wname = ["fixed window", "sliding log", "sliding counter"][case.window as usize % 3];
        let mut k = 0;
        while k < adm_t.len() {
            let same = adm_t[k..].iter().take_while(|&&t| t == adm_t[k]).count();
            if same > limit {
                let m = format!(
                    "{wname}, refresh_period {huge:?}: {same} calls reached the wrapped service in the single instant t={}, limit_for_period = {limit} (the surplus had no spare capacity to be admitted on)",
                    adm_t[k]
                );
                v.c02.push(m.clone());
                v.c15.push(m);
                break;
            }
            k += same;
        }
        if case.window == 1 && v.c02.is_empty() {
            for i in 0..adm_t.len().saturating_sub(limit) {
                let span = adm_t[i + limit] - adm_t[i];
                if span < p_up {
                    v.c02.push(format!(
                        "sliding log, refresh_period {huge:?}: admissions {}..{} ({} calls, at t={}..{}) span {span} ms, less than the period",
                        i,
                        i + limit,
                        limit + 1,
                        adm_t[i],
                        adm_t[i + limit]
                    ));
                    break;
                }
            }
        }
        for i in 0..n {
            let Some(tk) = task[i] else { continue };
            let resolve = snap.iter().find_map(|e| match e {
                Ev::Resolve { t, task, out } if *task == tk => Some((*t, out.clone())),
                _ => None,
            });
            match resolve {
                Some((rt, Outcome::Layer(_))) if rt > at[i] + timeout + 1 => v.c15.push(format!(
                    "{wname}, refresh_period {huge:?}: caller {i} arrived at t={} and was rejected at t={rt}, timeout_duration {timeout} ms",
                    at[i]
                )),
                None => v.c15.push(format!(
                    "{wname}, refresh_period {huge:?}: caller {i} (arrival {}) was never decided",
                    at[i]
                )),
                _ => {}
            }
        }
        for (task, msg) in &sim.unexpected_panics {
            v.c02.push(format!("{wname}, refresh_period {huge:?}: the limiter panicked in task {task}: {msg}"));
        }
        v.classes.push("period_with_a_sub_millisecond_part");
        v.classes.push(["fixed", "sliding_log", "sliding_counter"][case.window as usize % 3]);
        v.nontrivial_c02 = n > limit;
        v.nontrivial_c15 = n > limit;
        v.log = snap;
        return v;
    }
    let snap = log.snapshot();
    let entered: Vec<usize> = snap
        .iter()
        .filter_map(|e| match e {
            Ev::Enter { req, .. } => Some(req.id as usize),
            _ => None,
        })
        .collect();
    let wname = ["fixed window", "sliding log", "sliding counter"][case.window as usize % 3];
    if entered.len() > limit {
        v.c02.push(format!(
            "{wname}, refresh_period {huge:?} (the window never ends): {} calls reached the wrapped service, limit_for_period = {limit}",
            entered.len()
        ));
    }
    if entered.len() < limit.min(n) {
        v.c15.push(format!(
            "{wname}, refresh_period {huge:?}: only {} of the first {} calls were admitted although the window had spare capacity",
            entered.len(),
            limit.min(n)
        ));
    }
    for i in 0..n {
        let Some(tk) = task[i] else { continue };
        let resolve = snap.iter().find_map(|e| match e {
            Ev::Resolve { t, task, out } if *task == tk => Some((*t, out.clone())),
            _ => None,
        });
        let was_admitted = entered.contains(&i);
        match resolve {
            Some((_, Outcome::Ok { req, .. })) if was_admitted && req.id == i as u32 => {}
            Some((rt, Outcome::Layer(_))) if !was_admitted => {
                if rt > at[i] + timeout {
                    v.c15.push(format!(
                        "{wname}, refresh_period {huge:?}: caller {i} arrived at t={} and was rejected at t={rt}, timeout_duration {timeout} ms",
                        at[i]
                    ));
                }
            }
            other => v.c15.push(format!(
                "{wname}, refresh_period {huge:?}: caller {i} (arrival {}, admitted: {was_admitted}) ended as {other:?}",
                at[i]
            )),
        }
    }
    for (task, msg) in &sim.unexpected_panics {
        let m = format!("{wname}, refresh_period {huge:?}: the limiter panicked in task {task}: {msg}");
        v.c02.push(m.clone());
        v.c15.push(m);
    }
    v.classes.push("window_that_never_ends");
    v.classes.push(["fixed", "sliding_log", "sliding_counter"][case.window as usize % 3]);
    v.nontrivial_c02 = n > limit;
    v.nontrivial_c15 = n > limit;
    v.log = snap;
    v
}

async fn interp(case: &RlCase) -> Verdict {
    let mut v = Verdict::default();
    let log = Log::new();
    let mut sim = Sim::new(log.clone(), case.order.clone());
    let p = case.period;
    let limit = case.limit;
    let forever = case.timeout_forever;
    // "unbounded" for the deadline arithmetic below (about 35 years of virtual time)
    let timeout = if forever { 1u64 << 40 } else { case.timeout.ms(p) };
    let lats: Vec<u64> = case.callers.iter().map(|c| c.lat).collect();
    let inner = Scripted::new(log.clone(), 1, move |req, _, _| {
        Step::ok(lats.get(req.id as usize).copied().unwrap_or(0))
    });
    // busy interval [b0, b1) of the wrapped service
    let busy: Option<(u64, u64)> = match (case.stall, case.busy) {
        (None, Some((a, l))) => {
            let b0 = a.ms(p).max(1);
            Some((b0, b0 + l.ms(p).max(1)))
        }
        _ => None,
    };
    let inner = crate::svc::BusyAt::new(inner, busy.into_iter().collect());
    let wt = match case.window {
        0 => WindowType::Fixed,
        1 => WindowType::SlidingLog,
        _ => WindowType::SlidingCounter,
    };
    // off-grid construction instant; tokio's timer then fires up to 1 ms after a fractional
    // deadline, which the deadline rules below allow for
    crate::vclock::advance_ns(case.build_offset_us as u64 * 1_000);
    let slack = (case.build_offset_us > 0) as u64;
    let b0 = if case.listeners {
        RateLimiterLayer::builder()
            .on_permit_acquired(|_| {})
            .on_permit_rejected(|_| {})
            .on_permits_refreshed(|_| {})
    } else {
        RateLimiterLayer::builder()
    };
    let layer = crate::gen::apply_in_order(
        b0,
        vec![
            Box::new(move |b| b.limit_for_period(limit)),
            Box::new(move |b| b.refresh_period(Duration::from_millis(p))),
            Box::new(move |b| {
                b.timeout_duration(if forever {
                    Duration::MAX
                } else {
                    Duration::from_millis(timeout)
                })
            }),
            Box::new(move |b| b.window_type(wt)),
        ],
        case.setter_order,
    )
    .build();
    let base = layer.layer(inner.clone());
    let mut clones: Vec<_> = (0..case.clones).map(|_| base.clone()).collect();
    let mut keep_alive = Some((layer, base));

    let n = case.callers.len();
    let mut at = vec![0u64; n];
    let mut acc = 0u64;
    for (i, c) in case.callers.iter().enumerate() {
        acc += c.gap.ms(p);
        at[i] = acc;
    }
    // executor stall [s0, s1): arrivals (and cancellations) inside it take place at s1
    let stall: Option<(u64, u64)> = case.stall.and_then(|(a, l)| {
        let (s0, len) = (a.ms(p).max(1), l.ms(p));
        (len >= 2).then_some((s0, s0 + len))
    });
    if let Some((s0, s1)) = stall {
        for a in at.iter_mut() {
            if *a > s0 && *a < s1 {
                *a = s1;
            }
        }
    }
    // instant of call() (the future is created then, and first polled at at[i])
    let mut created: Vec<u64> = (0..n)
        .map(|i| at[i].saturating_sub(case.callers[i].call_early))
        .collect();
    if let Some((s0, s1)) = stall {
        for (i, c) in created.iter_mut().enumerate() {
            if *c > s0 && *c < s1 {
                *c = s1.min(at[i]);
            }
        }
    }
    if let Some((b0, b1)) = busy {
        for i in 0..n {
            if created[i] >= b0 && created[i] < b1 {
                created[i] = b1;
                at[i] = at[i].max(b1);
            }
        }
    }
    let mut held: Vec<Option<futures::future::BoxFuture<'static, Result<crate::svc::Resp, RateLimiterServiceError<crate::svc::SErr>>>>> =
        (0..n).map(|_| None).collect();
    let overlaps_stall = |from: u64, to: u64| stall.map_or(false, |(s0, s1)| from < s1 && to >= s0);
    let horizon = at.iter().copied().max().unwrap_or(0).max(stall.map_or(0, |s| s.1)).max(busy.map_or(0, |b| b.1))
        + if forever {
            // long enough for a queue of callers to drain window by window (bounded for cost)
            ((case.callers.len() as u64 + 3) * 2 * p).min(4_000)
        } else {
            timeout + 3 * p
        }
        + 25;
    let last_created = created.iter().copied().max().unwrap_or(0);
    let mut task: Vec<Option<usize>> = vec![None; n];
    let mut cancelled_waiting = vec![false; n];
    let mut cancelled = vec![false; n];
    let mut max_waiting = 0usize;

    let admitted_at = |l: &[Ev], id: usize| -> Option<u64> {
        l.iter().find_map(|e| match e {
            Ev::Enter { t, req, .. } if req.id == id as u32 => Some(*t),
            _ => None,
        })
    };

    let mut t = 0u64;
    while t <= horizon {
        if t > 0 {
            if let Some((s0, s1)) = stall {
                if t == s0 + 1 {
                    // nothing runs until s1: jump there in one go
                    crate::vclock::advance_ms(s1 - s0 - 1);
                    t = s1;
                }
            }
            sim.begin_instant().await;
        }
        debug_assert_eq!(sim::now(), t);
        for i in 0..n {
            if created[i] == t {
                let req = Req {
                    id: i as u32,
                    key: 0,
                    tag: 0xA000 + i as u64,
                };
                let s = &mut clones[(case.callers[i].clone % case.clones) as usize];
                let _ = futures::future::poll_fn(|cx| s.poll_ready(cx)).await;
                held[i] = Some(Box::pin(s.call(req)));
            }
            if at[i] == t {
                if let Some(fut) = held[i].take() {
                    let tk = sim.spawn_call(fut, map_outcome);
                    if (case.starve_mask >> (i % 64)) & 1 == 1 {
                        sim.starve_first_poll(tk);
                    }
                    task[i] = Some(tk);
                }
            }
        }
        if case.drop_services && t == last_created {
            clones.clear();
            keep_alive = None;
        }
        for i in 0..n {
            if let (Some(d), Some(tk)) = (case.callers[i].cancel_after, task[i]) {
                let mut ct = at[i] + d;
                if let Some((s0, s1)) = stall {
                    if ct > s0 && ct < s1 {
                        ct = s1;
                    }
                }
                if ct == t && sim.state(tk) == TaskState::Live {
                    let ent = log.with(|l| admitted_at(l, i).is_some());
                    cancelled[i] = true;
                    cancelled_waiting[i] = !ent;
                    sim.cancel(tk);
                }
            }
        }
        sim.settle().await;
        // decided within the timeout: nobody who arrived >= timeout ago is still undecided
        let snap = log.snapshot();
        let mut waiting = 0usize;
        for i in 0..n {
            if let Some(tk) = task[i] {
                if sim.state(tk) == TaskState::Live && admitted_at(&snap, i).is_none() {
                    waiting += 1;
                    if t >= at[i] + timeout + slack && !overlaps_stall(at[i], at[i] + timeout + slack) {
                        v.c15.push(format!(
                            "t={t}: caller {i} arrived at {} and is still undecided, timeout_duration={} ms",
                            at[i], timeout
                        ));
                    }
                }
            }
        }
        max_waiting = max_waiting.max(waiting);
        if !v.c15.is_empty() {
            break;
        }
        t += 1;
    }

    let snap = log.snapshot();
    // admissions in log order
    let adm: Vec<(u64, usize)> = snap
        .iter()
        .filter_map(|e| match e {
            Ev::Enter { t, req, .. } => Some((*t, req.id as usize)),
            _ => None,
        })
        .collect();
    let adm_t: Vec<u64> = adm.iter().map(|a| a.0).collect();

    // ---------------- C02
    match case.window {
        1 => {
            for i in 0..adm_t.len().saturating_sub(limit) {
                let span = adm_t[i + limit] - adm_t[i];
                if span < p {
                    v.c02.push(format!(
                        "sliding log: admissions {}..{} ({} calls, at t={}..{}) span {span} ms < refresh_period {p} ms with limit_for_period {limit}",
                        i, i + limit, limit + 1, adm_t[i], adm_t[i + limit]
                    ));
                    break;
                }
            }
        }
        _ => {
            if partition_witness(&adm_t, limit, p).is_none() {
                v.c02.push(format!(
                    "{}: admissions at t={:?} cannot be cut into consecutive windows >= {p} ms holding <= {limit} each",
                    if case.window == 0 { "fixed window" } else { "sliding counter" },
                    adm_t
                ));
            }
        }
    }

    // ---------------- C15
    let mut rejected = 0usize;
    let mut waited = 0usize;
    for i in 0..n {
        let enters = snap
            .iter()
            .filter(|e| matches!(e, Ev::Enter { req, .. } if req.id == i as u32))
            .count();
        let resolve = task[i].and_then(|tk| {
            snap.iter().find_map(|e| match e {
                Ev::Resolve { t, task, out } if *task == tk => Some((*t, out.clone())),
                _ => None,
            })
        });
        if enters > 1 {
            v.c15
                .push(format!("caller {i} reached the inner service {enters} times"));
        }
        if cancelled_waiting[i] && enters > 0 {
            v.c15.push(format!(
                "caller {i} was cancelled while waiting but its request reached the inner service"
            ));
        }
        if let Some(a) = admitted_at(&snap, i) {
            if a > at[i] {
                waited += 1;
            }
            if a > at[i] + timeout + slack && !overlaps_stall(at[i], at[i] + timeout + slack) {
                v.c15.push(format!(
                    "caller {i} arrived at {} and was admitted at {a}, later than timeout_duration={} ms",
                    at[i], timeout
                ));
            }
        }
        match resolve {
            Some((t, Outcome::Layer(name))) => {
                rejected += 1;
                // (a rejection before the timeout has run out is allowed by the statement: the limiter
                // re-checks once after its wait and gives up if other waiters took that window's permits)
                if name != "RateLimited" {
                    v.c15.push(format!("caller {i} rejected with {name}"));
                }
                if enters > 0 {
                    v.c15.push(format!(
                        "caller {i} was rejected (RateLimited) but its request reached the inner service"
                    ));
                }
                if t > at[i] + timeout + slack && !overlaps_stall(at[i], at[i] + timeout + slack) {
                    v.c15.push(format!(
                        "caller {i} arrived at {} and was rejected at {t}, later than timeout_duration={} ms",
                        at[i], timeout
                    ));
                }
            }
            Some((_, Outcome::Ok { serial, req })) => {
                let own = snap.iter().any(|e| matches!(e, Ev::Enter { serial: s, req: r, .. } if *s == serial && r.id == i as u32));
                if !own || req.id != i as u32 || enters != 1 {
                    v.c15.push(format!(
                        "caller {i} got a response that is not from exactly one inner call of its own"
                    ));
                }
            }
            Some((_, Outcome::Inner { .. })) | Some((_, Outcome::Other(_))) => {
                v.c15
                    .push(format!("caller {i}: unexpected outcome {:?}", resolve));
            }
            None => {
                if !cancelled[i] && !forever {
                    v.c15
                        .push(format!("caller {i} never resolved within the horizon"));
                }
            }
        }
    }
    // immediate admission when there is spare capacity: a caller denied entry in its arrival
    // instant implies >= limit admissions within the last P (fixed, log) / 3P (counter),
    // counting those of the arrival instant itself.
    let span = if case.window == 2 { 3 * p } else { p };
    let mut boundary_full_arrival = false;
    for i in 0..n {
        if case.callers[i].cancel_after.is_some() && cancelled_waiting[i] && task[i].is_none() {
            continue;
        }
        let t = at[i];
        let recent = adm_t
            .iter()
            .filter(|&&a| a + span >= t && a <= t)
            .count();
        let now_adm = admitted_at(&snap, i) == Some(t);
        if !now_adm && recent < limit {
            v.c15.push(format!(
                "caller {i} arrived at t={t} with spare capacity ({recent} admissions within the last {span} ms, limit_for_period {limit}) but was not admitted at once"
            ));
        }
        if adm_t.iter().any(|&a| a + p == t)
            && adm_t.iter().filter(|&&a| a + p >= t && a < t).count() >= limit
        {
            boundary_full_arrival = true;
        }
    }
    // "otherwise rejected": one instant lies in one window, so a window that already gave out
    // limit_for_period permits in this very instant has no spare capacity for one more caller
    {
        let mut k = 0;
        while k < adm_t.len() {
            let same = adm_t[k..].iter().take_while(|&&a| a == adm_t[k]).count();
            if same > limit {
                v.c15.push(format!(
                    "{same} callers were admitted in the single instant t={}, limit_for_period is {limit}: the surplus callers had to wait for a later window or be rejected",
                    adm_t[k]
                ));
                break;
            }
            k += same;
        }
    }
    // idle rule: after two full periods without any activity the next `limit` arrivals enter at once
    let mut activity: Vec<u64> = vec![0];
    for e in &snap {
        activity.push(e.t());
    }
    activity.extend(at.iter().copied());
    activity.sort_unstable();
    let mut idle_arrivals = 0usize;
    let mut order_idx: Vec<usize> = (0..n).collect();
    order_idx.sort_by_key(|&i| (at[i], i));
    for (pos, &i) in order_idx.iter().enumerate() {
        let t = at[i];
        if pos > 0 && at[order_idx[pos - 1]] == t {
            continue; // handled with the first arrival of this instant
        }
        let last_before = activity.iter().rev().find(|&&a| a < t).copied();
        // also nobody may be waiting across the gap: every earlier caller decided before t - 2p
        // and nobody may have been waiting across the gap (possible when the executor stalled)
        let someone_waiting = (0..n).any(|j| {
            at[j] < t && {
                let decided = snap
                    .iter()
                    .filter_map(|e| match e {
                        Ev::Enter { t: te, req, .. } if req.id == j as u32 => Some(*te),
                        Ev::Resolve { t: tr, task: tk, .. } if Some(*tk) == task[j] => Some(*tr),
                        Ev::Cancel { t: tc, task: tk } if Some(*tk) == task[j] => Some(*tc),
                        _ => None,
                    })
                    .min();
                decided.map_or(true, |d| d >= t)
            }
        });
        let idle = match last_before {
            Some(a) => a + 2 * p <= t,
            None => true,
        } && t >= 2 * p
            && !someone_waiting;
        if idle {
            idle_arrivals += 1;
            // the next `limit` arrivals, grouped by instant (order inside one instant is free)
            let mut quota = limit;
            let mut q = pos;
            while quota > 0 && q < order_idx.len() {
                let tq = at[order_idx[q]];
                let group: Vec<usize> = order_idx[q..]
                    .iter()
                    .copied()
                    .take_while(|&j| at[j] == tq)
                    .collect();
                let admitted_now = group
                    .iter()
                    .filter(|&&j| admitted_at(&snap, j) == Some(tq))
                    .count();
                let need = group.len().min(quota);
                if admitted_now < need {
                    v.c15.push(format!(
                        "idle rule: no activity for >= 2 periods before t={t}; of the next {limit} calls, {} arrive at t={tq} and {need} of them must be admitted without waiting, but only {admitted_now} were",
                        group.len()
                    ));
                    break;
                }
                quota -= need;
                q += group.len();
            }
        }
    }
    for (task, msg) in &sim.unexpected_panics {
        v.c15.push(format!("unexpected panic in task {task}: {msg}"));
    }

    if waited > 0 {
        v.classes.push("waited_admission");
    }
    if rejected > 0 {
        v.classes.push("rejection");
    }
    if max_waiting >= 2 {
        v.classes.push("two_or_more_waiting_at_once");
    }
    if boundary_full_arrival {
        v.classes.push("arrival_on_boundary_window_full");
    }
    if idle_arrivals > 0 {
        v.classes.push("arrival_after_idle_2p");
    }
    if cancelled_waiting.iter().any(|&c| c) {
        v.classes.push("cancel_while_waiting");
    }
    if case.listeners {
        v.classes.push("event_listeners_registered");
    }
    if case.drop_services {
        v.classes.push("service_handles_dropped_after_the_last_call");
    }
    if case.starve_mask & ((1u64 << case.callers.len().min(63)) - 1) != 0 {
        v.classes.push("first_poll_with_exhausted_cooperative_budget");
    }
    let _ = &keep_alive;
    if busy.is_some() {
        v.classes.push("inner_service_busy_for_a_while");
    }
    if stall.is_some() {
        v.classes.push("executor_stall");
    }
    if forever {
        v.classes.push("timeout_duration_max");
    }
    if case.build_offset_us > 0 {
        v.classes.push("window_boundaries_off_the_millisecond_grid");
    }
    if (0..n).any(|i| created[i] < at[i]) {
        v.classes.push("first_poll_later_than_call");
    }
    v.classes.push(match case.window {
        0 => "fixed",
        1 => "sliding_log",
        _ => "sliding_counter",
    });
    v.nontrivial_c02 = (max_waiting >= 2 && waited > 0) || boundary_full_arrival;
    v.nontrivial_c15 = rejected > 0 || waited > 0 || idle_arrivals > 0;
    v.log = snap;
    v
}

fn trace(v: &Verdict) -> serde_json::Value {
    let evs: Vec<_> = v.log.iter().take(60).collect();
    json!({ "events": evs, "events_total": v.log.len() })
}

pub struct C02;
impl Property for C02 {
    type Case = RlCase;
    fn id(&self) -> &'static str {
        "C02"
    }
    fn strategy(&self, tier: Tier) -> BoxedStrategy<RlCase> {
        case_strategy(tier)
    }
    fn budget(&self, tier: Tier) -> (u32, usize) {
        match tier {
            Tier::Quick => (20_000, 8),
            Tier::Thorough => (1_000_000, 16),
        }
    }
    fn run(&self, case: &RlCase) -> Report {
        let v = run_rl(case);
        let mut r = Report::default();
        if let Some(m) = v.c02.first() {
            r.fail(m.clone());
        }
        r.nontrivial = v.nontrivial_c02;
        r.classes = v.classes.clone();
        r.trace = trace(&v);
        r
    }
    fn rule(&self) -> String {
        "proptest-generated histories: window type (3), limit 1-5, period 10-600 ms incl. float-unlucky periods, timeout from {0, P/2, P-1, P, P+1, 1.5P, 3P, uniform}, 1-14/24 callers on 1-3 clones arriving in bursts and at gaps from {0, 1, uniform, P-1, P, P+1, 2P-1, 2P, 2P+1, 3P, 4P}, optional cancellation, poll-order choices; virtual clock. Oracle on the timestamps of inner entries only: fixed/counter - a partition of the admission sequence into consecutive windows >= P with <= limit each must exist (dynamic program); sliding log - every limit+1 consecutive admissions span >= P.Also generated: event listeners, the wrapped service withholding readiness for an interval, starved first polls, service handles dropped after the last call, and two special period shapes - a window that never ends (refresh_period Duration::MAX / u64::MAX s / i64::MAX s / 300 years: at most limit calls are ever admitted) and a period with a sub-millisecond part (800 us, 200 us, p+0.9 ms, p+0.1 ms: at most limit admissions per instant; sliding log spans >= the period). Non-trivial: >= 2 callers waiting at once with a waited admission, or an arrival exactly on a window boundary with the window full; distinct by hash of the case".into()
    }
    fn assumptions(&self) -> Vec<String> {
        vec![
            "admissions at the very instant of a window cut may be assigned to either side (tie)".into(),
            "whole-millisecond instants; the limiter reads the interposed virtual clock".into(),
        ]
    }
}

pub struct C15;
impl Property for C15 {
    type Case = RlCase;
    fn id(&self) -> &'static str {
        "C15"
    }
    fn strategy(&self, tier: Tier) -> BoxedStrategy<RlCase> {
        prop_oneof![300 => case_strategy(tier), 1 => stress_strategy(tier)].boxed()
    }
    fn budget(&self, tier: Tier) -> (u32, usize) {
        match tier {
            Tier::Quick => (20_000, 8),
            Tier::Thorough => (1_000_000, 16),
        }
    }
    fn run(&self, case: &RlCase) -> Report {
        if let Some(st) = &case.stress {
            return run_rl_stress(st);
        }
        let v = run_rl(case);
        let mut r = Report::default();
        if let Some(m) = v.c15.first() {
            r.fail(m.clone());
        }
        r.nontrivial = v.nontrivial_c15;
        r.classes = v.classes.clone();
        r.trace = trace(&v);
        r
    }
    fn rule(&self) -> String {
        "same generated histories as C02 (about one case in 300 is instead a real-thread stress: 2-8 OS threads x 4000/30000 calls through clones of one limiter whose window never ends, timeout 0-5 ms, with more permits than calls - nobody rejected - or with l permits (1-2000, or 65000-70000 with enough calls to pass them) - exactly l admitted at their first poll). Oracles: every caller is admitted or rejected (RateLimited) no later than arrival + timeout_duration and nobody is undecided at a quiescent instant past it; an admitted caller enters the inner service exactly once and gets its own response, a rejected or cancelled-while-waiting caller never enters; a caller denied entry in its arrival instant implies >= limit admissions within the last P (fixed, log) / 3P (counter: widest span of its two buckets); after >= 2P without any activity the next limit arrivals enter in their arrival instants. Non-trivial: the case has a rejection, a waited admission or an arrival after >= 2P of idleness; distinct by hash of the case".into()
    }
    fn assumptions(&self) -> Vec<String> {
        vec![
            "'idle' is read as: no arrival, admission, rejection or other event for two full periods".into(),
            "'spare capacity' is checked through a sufficient condition that holds for every placement of the windows".into(),
        ]
    }
}
