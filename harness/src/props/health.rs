//! C18: published health status flips only at its thresholds; get_healthy / get_usable return only
//! eligible resources; round-robin visits eligible resources evenly.

use crate::runner::{Property, Report, Tier};
use crate::sim;
use crate::vclock;
use proptest::prelude::*;
use serde::{Deserialize, Serialize};
use serde_json::json;
use std::sync::{Arc, Mutex};
use std::time::Duration;
use tower_resilience_healthcheck::{HealthCheckWrapper, HealthChecker, HealthStatus, SelectionStrategy};

#[derive(Clone, Debug, Serialize, Deserialize)]
pub struct HcCase {
    pub failure_threshold: u32,
    pub success_threshold: u32,
    pub interval: u64,
    pub timeout: u64,
    pub initial_delay: u64,
    /// 0 first available, 1 round robin, 2 prefer healthy, 3 custom (last eligible), 4 custom (declines)
    pub strategy: u8,
    /// per resource: results of successive checks (0 healthy, 1 degraded, 2 unhealthy, 3 unknown,
    /// 4 slower than the timeout, 5 healthy after `slow_ms`, 6 unhealthy after `slow_ms`); the last
    /// entry repeats
    pub scripts: Vec<Vec<u8>>,
    /// duration of the slow checks (kept below the timeout); may exceed the interval when the
    /// timeout does
    #[serde(default)]
    pub slow_ms: u64,
    /// builder call order (gen::apply_in_order)
    #[serde(default)]
    pub setter_order: u8,
    /// the settings are collected in a HealthCheckConfig and handed to the wrapper builder with
    /// with_config() instead of being set on the wrapper builder one by one
    #[serde(default)]
    pub via_config: bool,
    /// after each round: (use get_usable, number of calls)
    pub bursts: Vec<(bool, u8)>,
}

fn case_strategy(tier: Tier) -> BoxedStrategy<HcCase> {
    let max_checks = match tier {
        Tier::Quick => 24usize,
        Tier::Thorough => 40,
    };
    let result = prop_oneof![
        4 => Just(0u8),
        2 => Just(1u8),
        4 => Just(2u8),
        2 => Just(3u8),
        2 => Just(4u8),
        1 => Just(5u8),
        1 => Just(6u8),
    ];
    (
        1u32..=4,
        1u32..=4,
        10u64..=50,
        // mostly well below the interval; sometimes above it (a check may then outlast a tick)
        prop_oneof![3 => 1u64..=9, 2 => 10u64..=80],
        0u64..=20,
        0u8..5,
        prop_oneof![
            3 => prop::collection::vec(prop::collection::vec(result.clone(), 5..=max_checks), 1..=5),
            1 => prop::collection::vec(prop::collection::vec(result, 5..=max_checks), 6..=9),
        ],
        prop::collection::vec((any::<bool>(), 1u8..=9), 1..=max_checks),
        (1u64..=70, prop::bool::weighted(0.15), prop_oneof![1 => Just(0u8), 1 => 0u8..12], prop::bool::weighted(0.3)),
    )
        .prop_map(
            |(failure_threshold, success_threshold, interval, timeout, initial_delay, strategy, mut scripts, bursts, (slow_ms, all_slow, setter_order, via_config))| {
                if all_slow {
                    // every check of every resource takes `slow_ms` (still below the timeout)
                    for s in scripts.iter_mut() {
                        for r in s.iter_mut() {
                            *r = match *r {
                                0 => 5,
                                2 => 6,
                                x => x,
                            };
                        }
                    }
                }
                HcCase {
                failure_threshold,
                success_threshold,
                interval,
                timeout,
                initial_delay,
                strategy,
                scripts,
                bursts,
                slow_ms,
                setter_order,
                via_config,
                }
            },
        )
        .boxed()
}

#[derive(Clone, Debug, PartialEq, Serialize)]
pub enum CheckEv {
    Start { res: usize, k: usize, t: u64 },
    /// result delivered (0..=3)
    Served { res: usize, k: usize, result: u8, t: u64 },
    /// check future dropped before it delivered (timeout)
    Dropped { res: usize, k: usize, t: u64 },
}

struct Checker {
    scripts: Vec<Vec<u8>>,
    counters: Mutex<Vec<usize>>,
    log: Arc<Mutex<Vec<CheckEv>>>,
    timeout: u64,
    slow_ms: u64,
}

struct CheckGuard {
    log: Arc<Mutex<Vec<CheckEv>>>,
    res: usize,
    k: usize,
    served: bool,
}
impl Drop for CheckGuard {
    fn drop(&mut self) {
        if !self.served {
            self.log.lock().unwrap().push(CheckEv::Dropped {
                res: self.res,
                k: self.k,
                t: sim::now(),
            });
        }
    }
}

impl HealthChecker<usize> for Checker {
    fn check(&self, resource: &usize) -> impl std::future::Future<Output = HealthStatus> + Send {
        let res = *resource;
        let k = {
            let mut c = self.counters.lock().unwrap();
            let k = c[res];
            c[res] += 1;
            k
        };
        let result = *self.scripts[res].get(k).or(self.scripts[res].last()).unwrap_or(&0);
        let log = self.log.clone();
        let timeout = self.timeout;
        let slow = self.slow_ms.min(timeout.saturating_sub(1));
        log.lock().unwrap().push(CheckEv::Start {
            res,
            k,
            t: sim::now(),
        });
        async move {
            let mut g = CheckGuard {
                log: log.clone(),
                res,
                k,
                served: false,
            };
            if result == 4 {
                tokio::time::sleep(Duration::from_millis(timeout + 3)).await;
            }
            if (result == 5 || result == 6) && slow > 0 {
                tokio::time::sleep(Duration::from_millis(slow)).await;
            }
            let result = match result {
                5 => 0,
                6 => 2,
                r => r,
            };
            g.served = true;
            log.lock().unwrap().push(CheckEv::Served {
                res,
                k,
                result: result.min(3),
                t: sim::now(),
            });
            match result {
                0 | 4 => HealthStatus::Healthy,
                1 => HealthStatus::Degraded,
                2 => HealthStatus::Unhealthy,
                _ => HealthStatus::Unknown,
            }
        }
    }
}

#[derive(Clone, Copy, PartialEq, Debug)]
struct Model {
    status: HealthStatus,
    fails: u64,
    succ: u64,
}

pub struct Verdict {
    pub violations: Vec<String>,
    pub classes: Vec<&'static str>,
    pub nontrivial: bool,
    pub checks: Vec<CheckEv>,
}

pub fn run_hc(case: &HcCase) -> Verdict {
    sim::run_case(interp(case))
}

async fn interp(case: &HcCase) -> Verdict {
    let mut violations = vec![];
    let n = case.scripts.len();
    let log: Arc<Mutex<Vec<CheckEv>>> = Arc::new(Mutex::new(vec![]));
    let checker = Checker {
        scripts: case.scripts.clone(),
        counters: Mutex::new(vec![0; n]),
        log: log.clone(),
        timeout: case.timeout,
        slow_ms: case.slow_ms,
    };
    let strategy = match case.strategy {
        0 => SelectionStrategy::FirstAvailable,
        1 => SelectionStrategy::RoundRobin,
        2 => SelectionStrategy::PreferHealthy,
        3 => SelectionStrategy::Custom(Arc::new(|st: &[HealthStatus]| {
            if st.is_empty() {
                None
            } else {
                Some(st.len() - 1)
            }
        })),
        _ => SelectionStrategy::Custom(Arc::new(|st: &[HealthStatus]| {
            // declines every other eligible set size
            if st.len() % 2 == 0 {
                None
            } else {
                Some(0)
            }
        })),
    };
    let (iv, to, idl, ft, st) = (
        case.interval,
        case.timeout,
        case.initial_delay,
        case.failure_threshold,
        case.success_threshold,
    );
    let mut b = if case.via_config {
        // the other construction path: a complete HealthCheckConfig handed over
        let cfg = crate::gen::apply_in_order(
            tower_resilience_healthcheck::HealthCheckConfig::builder(),
            vec![
                Box::new(move |b| b.interval(Duration::from_millis(iv))),
                Box::new(move |b| b.timeout(Duration::from_millis(to))),
                Box::new(move |b| b.initial_delay(Duration::from_millis(idl))),
                Box::new(move |b| b.failure_threshold(ft)),
                Box::new(move |b| b.success_threshold(st)),
                Box::new(move |b| b.selection_strategy(strategy)),
            ],
            case.setter_order,
        )
        .build();
        HealthCheckWrapper::<usize, Checker>::builder().with_checker(checker).with_config(cfg)
    } else {
        crate::gen::apply_in_order(
        HealthCheckWrapper::<usize, Checker>::builder().with_checker(checker),
        vec![
            Box::new(move |b| b.with_interval(Duration::from_millis(iv))),
            Box::new(move |b| b.with_timeout(Duration::from_millis(to))),
            Box::new(move |b| b.with_initial_delay(Duration::from_millis(idl))),
            Box::new(move |b| b.with_failure_threshold(ft)),
            Box::new(move |b| b.with_success_threshold(st)),
            Box::new(move |b| b.with_selection_strategy(strategy)),
        ],
        case.setter_order,
    )
    };
    for r in 0..n {
        b = b.with_context(r, format!("res{r}"));
    }
    let wrapper = b.build();
    wrapper.start().await;

    let mut model = vec![
        Model {
            status: HealthStatus::Unknown,
            fails: 0,
            succ: 0,
        };
        n
    ];
    let mut consumed = 0usize;
    // "consecutive checks" means consecutive in check order: a result is folded into the machine
    // only after every earlier check of the same resource (None = timed out / dropped)
    let mut next_k = vec![0usize; n];
    let mut ready: std::collections::HashMap<(usize, usize), Option<u8>> = Default::default();
    let mut saw_overlap = false;
    let mut flips = vec![0usize; n];
    let mut saw_unknown_or_timeout_in_run = false;
    let rounds = case.scripts.iter().map(|s| s.len()).max().unwrap_or(5);
    let horizon = case.initial_delay + case.interval * (rounds as u64 + 1) + 5;
    let mut burst_idx = 0usize;
    let mut rr_bursts = 0usize;
    let mut rr_run_set: Vec<usize> = vec![];
    let mut rr_run_counts: Vec<usize> = vec![0; n];
    for _t in 0..=horizon {
        // let spawned tasks and timers run at this instant
        for _ in 0..4 {
            tokio::task::yield_now().await;
        }
        // fold newly completed checks into the model
        let evs = log.lock().unwrap().clone();
        let mut new_completed = false;
        while consumed < evs.len() {
            match &evs[consumed] {
                CheckEv::Start { .. } => {}
                CheckEv::Served { res, k, result, .. } => {
                    ready.insert((*res, *k), Some(*result));
                }
                CheckEv::Dropped { res, k, t } => {
                    // a check is given its whole timeout: it may be abandoned only `timeout` after
                    // it was started (time spent elsewhere does not count against it)
                    let started = evs.iter().find_map(|e| match e {
                        CheckEv::Start { res: r, k: kk, t: ts } if r == res && kk == k => Some(*ts),
                        _ => None,
                    });
                    if let Some(ts) = started {
                        if t - ts < case.timeout {
                            violations.push(format!(
                                "t={t}: check {k} of resource {res} was abandoned as timed out {} ms after it started; the check timeout is {} ms",
                                t - ts,
                                case.timeout
                            ));
                        }
                    }
                    ready.insert((*res, *k), None);
                }
            }
            consumed += 1;
        }
        let mut folding: Vec<(usize, Option<u8>)> = vec![];
        for r in 0..n {
            while let Some(x) = ready.remove(&(r, next_k[r])) {
                folding.push((r, x));
                next_k[r] += 1;
            }
        }
        if !ready.is_empty() {
            // a later check of some resource finished while an earlier one is still running
            saw_overlap = true;
        }
        for (res, outcome) in &folding {
            match outcome {
                Some(result) => {
                    new_completed = true;
                    let m = &mut model[*res];
                    let before = m.status;
                    match result {
                        0 => {
                            m.succ += 1;
                            m.fails = 0;
                            if m.succ >= case.success_threshold as u64 {
                                m.status = HealthStatus::Healthy;
                            }
                        }
                        1 => {
                            m.succ += 1;
                            m.fails = 0;
                            m.status = HealthStatus::Degraded;
                        }
                        2 => {
                            m.fails += 1;
                            m.succ = 0;
                            if m.fails >= case.failure_threshold as u64 {
                                m.status = HealthStatus::Unhealthy;
                            }
                        }
                        _ => {
                            if m.succ > 0 || m.fails > 0 {
                                saw_unknown_or_timeout_in_run = true;
                            }
                        }
                    }
                    if m.status != before {
                        flips[*res] += 1;
                    }
                }
                None => {
                    new_completed = true;
                    let m = &mut model[*res];
                    let before = m.status;
                    if m.succ > 0 || m.fails > 0 {
                        saw_unknown_or_timeout_in_run = true;
                    }
                    m.fails += 1;
                    m.succ = 0;
                    if m.fails >= case.failure_threshold as u64 {
                        m.status = HealthStatus::Unhealthy;
                    }
                    if m.status != before {
                        flips[*res] += 1;
                    }
                }
            }
        }
        // is any check in progress?
        let started = evs.iter().filter(|e| matches!(e, CheckEv::Start { .. })).count();
        let finished = evs.len() - started;
        if started == finished {
            // quiescent: published statuses must equal the model
            for r in 0..n {
                let got = wrapper.get_status(&format!("res{r}")).await;
                if got != Some(model[r].status) {
                    violations.push(format!(
                        "t={}: resource {r} is published {:?} but the documented machine says {:?} (thresholds: failure {}, success {}; counters: {} consecutive failures, {} consecutive non-failing)",
                        sim::now(), got, model[r].status, case.failure_threshold, case.success_threshold, model[r].fails, model[r].succ
                    ));
                }
            }
            let details = wrapper.get_health_details().await;
            for d in &details {
                let r: usize = d.name[3..].parse().unwrap_or(0);
                if d.status != model[r].status {
                    violations.push(format!(
                        "t={}: get_health_details reports {:?} for resource {r}, model {:?}",
                        sim::now(), d.status, model[r].status
                    ));
                }
            }
            if new_completed && violations.is_empty() {
                // a burst of selections with unchanged statuses
                let (usable, m) = case.bursts[burst_idx % case.bursts.len()];
                burst_idx += 1;
                let eligible: Vec<usize> = (0..n)
                    .filter(|&r| {
                        if usable {
                            matches!(model[r].status, HealthStatus::Healthy | HealthStatus::Degraded)
                        } else {
                            model[r].status == HealthStatus::Healthy
                        }
                    })
                    .collect();
                let mut counts = vec![0usize; n];
                let mut nones = 0usize;
                for _ in 0..m {
                    let got = if usable {
                        wrapper.get_usable().await
                    } else {
                        wrapper.get_healthy().await
                    };
                    match got {
                        None => nones += 1,
                        Some(r) => {
                            if !eligible.contains(&r) {
                                violations.push(format!(
                                    "t={}: {} returned resource {r}, whose published status is {:?}",
                                    sim::now(),
                                    if usable { "get_usable" } else { "get_healthy" },
                                    model[r].status
                                ));
                            }
                            counts[r] += 1;
                        }
                    }
                }
                if eligible.is_empty() && nones != m as usize {
                    violations.push(format!(
                        "t={}: no resource qualifies but a selection returned one",
                        sim::now()
                    ));
                }
                if !eligible.is_empty() && case.strategy <= 2 && nones > 0 {
                    violations.push(format!(
                        "t={}: resources {eligible:?} qualify but {} returned nothing {nones} times",
                        sim::now(),
                        if usable { "get_usable" } else { "get_healthy" }
                    ));
                }
                if case.strategy == 1 && !eligible.is_empty() {
                    // evenness over time: as long as the eligible set stays the same from burst to
                    // burst, the rotation simply goes on, so the counts of the whole run stay
                    // within one of each other (status changes of other resources do not matter)
                    if rr_run_set == eligible {
                        for r in 0..n {
                            rr_run_counts[r] += counts[r];
                        }
                    } else {
                        rr_run_set = eligible.clone();
                        rr_run_counts = counts.clone();
                    }
                    let lo_run = eligible.iter().map(|&r| rr_run_counts[r]).min().unwrap_or(0);
                    let hi_run = eligible.iter().map(|&r| rr_run_counts[r]).max().unwrap_or(0);
                    if hi_run > lo_run + 1 {
                        violations.push(format!(
                            "t={}: round robin over the unchanged eligible set {eligible:?}: over the last bursts the resources were visited {:?} times (not evenly)",
                            sim::now(),
                            eligible.iter().map(|&r| rr_run_counts[r]).collect::<Vec<_>>()
                        ));
                    }
                    rr_bursts += 1;
                    let lo = m as usize / eligible.len();
                    let hi = (m as usize + eligible.len() - 1) / eligible.len();
                    for &r in &eligible {
                        if counts[r] < lo || counts[r] > hi {
                            violations.push(format!(
                                "t={}: round robin over eligible {eligible:?}: {m} selections visited resource {r} {} times (expected {lo}..={hi}); counts {counts:?}",
                                sim::now(),
                                counts[r]
                            ));
                        }
                    }
                }
            }
        }
        if !violations.is_empty() {
            break;
        }
        vclock::advance_ms(1);
    }
    wrapper.stop().await;
    let checks = log.lock().unwrap().clone();
    let mut classes = vec![];
    if flips.iter().any(|&f| f >= 2) {
        classes.push("two_or_more_status_flips");
    }
    if saw_unknown_or_timeout_in_run {
        classes.push("unknown_or_timeout_inside_a_run");
    }
    if checks.iter().any(|e| matches!(e, CheckEv::Dropped { .. })) {
        classes.push("check_timed_out");
    }
    if rr_bursts > 0 {
        classes.push("round_robin_burst");
    }
    if case.timeout > case.interval {
        classes.push("timeout_longer_than_interval");
    }
    if saw_overlap {
        classes.push("checks_of_one_resource_overlapped");
    }
    Verdict {
        violations,
        nontrivial: flips.iter().any(|&f| f >= 2) && saw_unknown_or_timeout_in_run,
        classes,
        checks,
    }
}

pub struct C18;
impl Property for C18 {
    type Case = HcCase;
    fn id(&self) -> &'static str {
        "C18"
    }
    fn strategy(&self, tier: Tier) -> BoxedStrategy<HcCase> {
        case_strategy(tier)
    }
    fn budget(&self, tier: Tier) -> (u32, usize) {
        match tier {
            Tier::Quick => (80_000, 8),
            Tier::Thorough => (2_000_000, 16),
        }
    }
    fn run(&self, case: &HcCase) -> Report {
        let v = run_hc(case);
        let mut r = Report::default();
        if let Some(m) = v.violations.first() {
            r.fail(m.clone());
        }
        r.nontrivial = v.nontrivial;
        r.classes = v.classes.clone();
        let evs: Vec<_> = v.checks.iter().take(40).collect();
        r.trace = json!({ "checks": evs, "checks_total": v.checks.len() });
        r
    }
    fn rule(&self) -> String {
        "proptest-generated (1-5 resources, failure/success thresholds 1-4, interval 10-50 ms, timeout 1-9 ms, initial delay 0-20 ms, selection strategy in {first available, round robin, prefer healthy, custom last, custom declining}, per resource a script of 5-24/40 check results healthy/degraded/unhealthy/unknown/slower-than-timeout, bursts of 1-9 get_healthy or get_usable calls after each round); the periodic task runs on the virtual clock. Oracle: the statement's machine folded over the checks the scripted checker actually served or saw dropped (timeout): whenever no check is in progress get_status and get_health_details equal the model; selections return only model-eligible resources, nothing when none qualifies, something when one qualifies (built-in strategies); within a round-robin burst each eligible resource is visited floor(m/n) or ceil(m/n) times. Non-trivial: some resource flips status at least twice and an unknown or timed-out check falls inside a run of consecutive results; distinct by hash of the case".into()
    }
    fn assumptions(&self) -> Vec<String> {
        vec![
            "a custom selector may decline, so 'something when one qualifies' is demanded of the built-in strategies only".into(),
            "statuses are compared only at instants when no check is in progress".into(),
        ]
    }
}
