//! C13: the adaptive limit stays within [min_limit, max_limit] under every interleaving of the
//! atomic steps of concurrent feedback (schedule explorer), and the in-flight count is exact:
//! released on completion, failure, panic and drop; readiness refused only at the limit (simulator).

use crate::gen;
use crate::runner::{Property, Report, Tier};
use crate::sched;
use crate::sim::{self, Ev, Log, Outcome, Req, Sim, TaskState};
use crate::svc::{Resp, SErr, Scripted, Step};
use proptest::prelude::*;
use serde::{Deserialize, Serialize};
use serde_json::json;
use std::collections::HashMap;
use std::sync::{Arc, Mutex};
use std::task::Poll;
use std::time::Duration;
use tower::Service;
use tower_resilience_adaptive::{
    AdaptiveError, AdaptiveLimiterLayer, Aimd, ConcurrencyAlgorithm, Vegas,
};
use tower_resilience_core::aimd::{AimdConfig, AimdController};

#[derive(Clone, Debug, Serialize, Deserialize, PartialEq)]
pub enum Algo {
    /// core AimdController used directly (as the retry budget does)
    Controller { min: usize, max: usize, initial: usize, inc: usize, factor10: u8 },
    Aimd { min: usize, max: usize, initial: usize, inc: usize, factor10: u8, threshold_ms: u64 },
    Vegas { min: usize, max: usize, initial: usize, alpha: usize, beta: usize, warm: u8 },
}

/// feedback: 0 success/zero latency, 1 success below threshold, 2 success above threshold,
/// 3 success with a huge latency, 4 failure
type Fb = u8;

#[derive(Clone, Debug, Serialize, Deserialize)]
pub struct Caller {
    pub at: u64,
    pub clone: u8,
    pub step: Step,
    pub cancel_after: Option<u64>,
    /// after readiness, create the call future and drop it without ever polling it
    #[serde(default)]
    pub drop_unpolled: bool,
    /// goes through a second service built from the same layer (shared algorithm and limit,
    /// separate inner service and in-flight count)
    #[serde(default)]
    pub sibling: bool,
    /// ms between the successful readiness check and the call (other callers may get ready and
    /// call in between; poll_ready reserves nothing)
    #[serde(default)]
    pub ready_gap: u64,
}

#[derive(Clone, Debug, Serialize, Deserialize)]
pub enum AdaptiveCase {
    Sched {
        algo: Algo,
        threads: Vec<Vec<Fb>>,
        schedule: Vec<u8>,
    },
    Sim {
        vegas: bool,
        min: usize,
        max: usize,
        initial: usize,
        callers: Vec<Caller>,
        order: Vec<u8>,
        /// callers keep the resolved response future alive for this long before dropping it
        #[serde(default)]
        hold: Option<u64>,
    },
    /// clones of one limiter used from several threads at once; every atomic step of the service
    /// (readiness check, admission, release) and of the algorithm is a scheduling point.
    /// Per thread, ops: 0 = call and run to completion, 1 = call and keep the (never completing)
    /// call alive until everything has finished, 2 = call and drop the future unpolled,
    /// 3 = call, poll once (pending), drop, 4 = call that fails
    Threads {
        vegas: bool,
        threads: Vec<Vec<u8>>,
        schedule: Vec<u8>,
    },
}

fn bounds() -> BoxedStrategy<(usize, usize, usize)> {
    // (min, max, initial) with min <= max; initial anywhere (also outside, to exercise clamping)
    (0usize..=6, 0usize..=6, 0usize..=9, 0u8..6)
        .prop_map(|(a, b, i, mode)| {
            let (min, max) = (a.min(b), a.max(b));
            // bias the initial limit towards the edges, where a lost clamp shows
            let initial = match mode {
                0 => max.saturating_sub(1),
                1 => max,
                2 => min,
                3 => min + 1,
                _ => i,
            };
            (min, max, initial)
        })
        .boxed()
}

fn case_strategy(tier: Tier) -> BoxedStrategy<AdaptiveCase> {
    let algo = prop_oneof![
        (bounds(), 1usize..=5, 0u8..=10).prop_map(|((min, max, initial), inc, factor10)| Algo::Controller { min, max, initial, inc, factor10 }),
        (bounds(), 1usize..=5, 0u8..=10, 1u64..=50).prop_map(|((min, max, initial), inc, factor10, threshold_ms)| Algo::Aimd { min, max, initial, inc, factor10, threshold_ms }),
        (bounds(), 0usize..=6, 0usize..=6, prop_oneof![1 => 0u8..=9, 3 => 10u8..=14]).prop_map(|((min, max, initial), alpha, beta, warm)| Algo::Vegas { min, max, initial, alpha, beta, warm }),
    ];
    let sched_case = (
        algo,
        prop::collection::vec(prop::collection::vec(prop_oneof![1 => Just(0u8), 5 => Just(1u8), 2 => Just(2u8), 1 => Just(3u8), 2 => Just(4u8)], 1..=6), 2..=3),
        prop_oneof![
            prop::collection::vec(prop_oneof![5 => 0u8..160, 1 => 160u8..=255], 0..=200),
            prop::collection::vec(any::<u8>(), 0..=200),
        ],
    )
        .prop_map(|(algo, threads, schedule)| AdaptiveCase::Sched {
            algo,
            threads,
            schedule,
        });
    let callers_hi = match tier {
        Tier::Quick => 10usize,
        Tier::Thorough => 20,
    };
    let caller = (
        gen::instant(80),
        0u8..3,
        gen::step(100, true),
        prop_oneof![
            4 => Just(None),
            1 => Just(Some(0u64)),
            2 => (1u64..=8).prop_map(|k| Some(k * 10)),
            2 => (1u64..=90).prop_map(Some),
        ],
        prop::bool::weighted(0.12),
        any::<bool>(),
        prop_oneof![4 => Just(0u64), 1 => 1u64..=15, 1 => Just(10u64)],
    )
        .prop_map(|(at, clone, step, cancel_after, drop_unpolled, sibling, ready_gap)| Caller {
            at,
            clone,
            step,
            cancel_after,
            drop_unpolled,
            sibling,
            ready_gap,
        });
    let sim_case = (
        any::<bool>(),
        // min_limit 0 is legal: the limit may then reach 0 and nobody may be admitted
        prop_oneof![1 => Just(0usize), 4 => 1usize..=3],
        0usize..=3,
        0usize..=4,
        prop::collection::vec(caller, 2..=callers_hi),
        prop::collection::vec(any::<u8>(), 0..=40),
        any::<bool>(),
        prop_oneof![3 => Just(None), 1 => (1u64..=40).prop_map(Some)],
    )
        .prop_map(|(vegas, min, extra, initial, mut callers, order, two_services, hold)| {
            if !two_services {
                for c in callers.iter_mut() {
                    c.sibling = false;
                }
            }
            AdaptiveCase::Sim {
                vegas,
                min,
                max: min + extra,
                initial,
                callers,
                order,
                hold,
            }
        });
    let threads_case = (
        any::<bool>(),
        prop::collection::vec(prop::collection::vec(0u8..=4, 1..=3), 2..=3),
        prop_oneof![
            prop::collection::vec(prop_oneof![5 => 0u8..160, 1 => 160u8..=255], 0..=200),
            prop::collection::vec(any::<u8>(), 0..=200),
        ],
    )
        .prop_map(|(vegas, threads, schedule)| AdaptiveCase::Threads {
            vegas,
            threads,
            schedule,
        });
    prop_oneof![3 => sched_case, 2 => sim_case, 1 => threads_case].boxed()
}

fn latency_for(fb: Fb, threshold_ms: u64) -> Duration {
    match fb {
        0 => Duration::ZERO,
        1 => Duration::from_millis(threshold_ms.saturating_sub(1).max(1)),
        2 => Duration::from_millis(threshold_ms + 1),
        _ => Duration::from_secs(3600 * 24 * 365),
    }
}

enum Built {
    Ctl(AimdController),
    Algo(Box<dyn ConcurrencyAlgorithm>),
}

impl Built {
    fn limit(&self) -> usize {
        match self {
            Built::Ctl(c) => c.limit(),
            Built::Algo(a) => a.limit(),
        }
    }
    fn feed(&self, fb: Fb, threshold_ms: u64) {
        match self {
            Built::Ctl(c) => {
                if fb == 4 || fb >= 2 {
                    c.record_failure()
                } else {
                    c.record_success()
                }
            }
            Built::Algo(a) => {
                if fb == 4 {
                    a.record_failure()
                } else {
                    a.record_success(latency_for(fb, threshold_ms))
                }
            }
        }
    }
}

fn run_sched(algo: &Algo, threads: &[Vec<Fb>], schedule: &[u8]) -> Report {
    let mut r = Report::default();
    let (built, min, max, thr) = match algo {
        Algo::Controller {
            min,
            max,
            initial,
            inc,
            factor10,
        } => (
            Built::Ctl(AimdController::new(
                AimdConfig::new()
                    .with_initial_limit(*initial)
                    .with_min_limit(*min)
                    .with_max_limit(*max)
                    .with_increase_by(*inc)
                    .with_decrease_factor(*factor10 as f64 / 10.0),
            )),
            *min,
            *max,
            10,
        ),
        Algo::Aimd {
            min,
            max,
            initial,
            inc,
            factor10,
            threshold_ms,
        } => (
            Built::Algo(Box::new(
                Aimd::builder()
                    .initial_limit(*initial)
                    .min_limit(*min)
                    .max_limit(*max)
                    .increase_by(*inc)
                    .decrease_factor(*factor10 as f64 / 10.0)
                    .latency_threshold(Duration::from_millis(*threshold_ms))
                    .build(),
            )),
            *min,
            *max,
            *threshold_ms,
        ),
        Algo::Vegas {
            min,
            max,
            initial,
            alpha,
            beta,
            warm,
        } => {
            let v = Vegas::builder()
                .initial_limit(*initial)
                .min_limit(*min)
                .max_limit(*max)
                .alpha(*alpha)
                .beta(*beta)
                .build();
            // warm-up samples so that the limit adjustment is active during the schedule
            for k in 0..*warm {
                v.record_success(Duration::from_millis(1 + (k as u64 % 3)));
            }
            (Built::Algo(Box::new(v)), *min, *max, 10)
        }
    };
    let built = Arc::new(built);
    let initial_limit = built.limit();
    if initial_limit < min || initial_limit > max {
        r.fail(format!(
            "initial limit {initial_limit} outside [{min}, {max}] ({algo:?})"
        ));
    }
    let mut bodies: Vec<Box<dyn FnOnce() + Send>> = vec![];
    let progress: Arc<Mutex<Vec<usize>>> = Arc::new(Mutex::new(vec![0; threads.len()]));
    for (ti, ops) in threads.iter().enumerate() {
        let b = built.clone();
        let ops = ops.clone();
        let pr = progress.clone();
        bodies.push(Box::new(move || {
            for &fb in &ops {
                b.feed(fb, thr);
                pr.lock().unwrap()[ti] += 1;
            }
        }));
    }
    let mb = built.clone();
    let mut observed = vec![];
    let outcome = sched::explore(bodies, schedule, |view| {
        let l = mb.limit();
        if observed.len() < 50 {
            observed.push(l);
        }
        if l < min || l > max {
            Some(format!(
                "after atomic step {} (thread {:?} ran): limit() = {l} outside [{min}, {max}]",
                view.step, view.ran
            ))
        } else {
            None
        }
    });
    if let Some(v) = outcome.violation {
        r.fail(v);
    }
    if let Some(p) = outcome.panic {
        r.fail(format!("feedback operation panicked: {p}"));
    }
    r.nontrivial = outcome.preemptions > 0 && outcome.steps > 2;
    r.class("schedule_engine");
    if outcome.preemptions > 0 {
        r.class("preemption_inside_limit_updates");
    }
    r.class(match algo {
        Algo::Controller { .. } => "aimd_controller",
        Algo::Aimd { .. } => "aimd",
        Algo::Vegas { .. } => "vegas",
    });
    if observed.iter().any(|&l| l != initial_limit) {
        r.class("limit_changed");
    }
    r.trace = json!({"limits_after_steps": observed, "atomic_steps": outcome.steps, "preemptions": outcome.preemptions});
    r
}

fn map_outcome(r: Result<Resp, AdaptiveError<SErr>>) -> Outcome {
    match r {
        Ok(resp) => Outcome::Ok {
            serial: resp.serial,
            req: resp.req,
        },
        Err(AdaptiveError::Service(e)) => Outcome::Inner {
            code: e.code,
            serial: e.serial,
        },
        Err(AdaptiveError::LimitReached) => Outcome::Layer("LimitReached".into()),
    }
}

struct SimVerdict {
    violations: Vec<String>,
    classes: Vec<&'static str>,
    nontrivial: bool,
    log: Vec<Ev>,
}

async fn run_sim_generic<A: ConcurrencyAlgorithm + 'static>(
    algorithm: A,
    callers: &[Caller],
    order: &[u8],
    hold: Option<u64>,
) -> SimVerdict {
    let violations: Arc<Mutex<Vec<String>>> = Arc::new(Mutex::new(vec![]));
    let log = Log::new();
    let mut sim = Sim::new(log.clone(), order.to_vec());
    let mut table: HashMap<u32, Vec<Step>> = HashMap::new();
    for (i, c) in callers.iter().enumerate() {
        table.insert(i as u32, vec![c.step]);
    }
    let inner = Scripted::from_table(log.clone(), table.clone(), Step::ok(0));
    let inner2 = Scripted::from_table(log.clone(), table, Step::ok(0));
    let layer = AdaptiveLimiterLayer::new(algorithm);
    let base = tower::Layer::layer(&layer, inner.clone());
    let base2 = tower::Layer::layer(&layer, inner2.clone());
    let clones: Vec<_> = (0..3).map(|_| base.clone()).collect();
    let clones2: Vec<_> = (0..3).map(|_| base2.clone()).collect();
    let mut saw_sibling = false;
    let n = callers.len();
    let horizon = callers
        .iter()
        .map(|c| c.at + c.cancel_after.unwrap_or(0))
        .max()
        .unwrap_or(0)
        + 120
        + hold.unwrap_or(0);
    let mut task = vec![None; n];
    let mut saw_pending = false;
    let pending_flag = Arc::new(Mutex::new(false));
    let mut saw_drop_running = false;
    let mut saw_panic = false;
    let mut saw_unpolled_drop = false;
    let probe = base.clone();
    let probe2 = base2.clone();

    for t in 0..=horizon {
        if t > 0 {
            sim.begin_instant().await;
        }
        for (i, c) in callers.iter().enumerate() {
            if c.at == t {
                let (mut svc, truth) = if c.sibling {
                    saw_sibling = true;
                    (clones2[(c.clone % 3) as usize].clone(), inner2.shared.clone())
                } else {
                    (clones[(c.clone % 3) as usize].clone(), inner.shared.clone())
                };
                let viol = violations.clone();
                let pf = pending_flag.clone();
                let req = Req {
                    id: i as u32,
                    key: 0,
                    tag: 0xAD00 + i as u64,
                };
                let drop_unpolled = c.drop_unpolled;
                let ready_gap = c.ready_gap;
                if drop_unpolled {
                    saw_unpolled_drop = true;
                }
                let fut = async move {
                    // readiness, checked against the ground truth at every poll; a caller with an odd
                    // gap checks readiness a second time after it (the same handle polled ready twice
                    // with no call in between, while other callers came and went)
                    let rounds = if ready_gap % 2 == 1 { 2 } else { 1 };
                    for round in 0..rounds {
                    futures::future::poll_fn(|cx| {
                        let in_flight_truth = truth.in_flight() as usize;
                        let limit = svc.limit();
                        let reported = svc.in_flight();
                        let res = svc.poll_ready(cx);
                        if reported != in_flight_truth {
                            viol.lock().unwrap().push(format!(
                                "t={}: in_flight() reports {reported} but {in_flight_truth} inner calls are in flight",
                                sim::now()
                            ));
                        }
                        match &res {
                            Poll::Pending => {
                                *pf.lock().unwrap() = true;
                                if in_flight_truth < limit {
                                    viol.lock().unwrap().push(format!(
                                        "t={}: readiness refused to caller {i} with {in_flight_truth} calls in flight, limit {limit}",
                                        sim::now()
                                    ));
                                }
                            }
                            Poll::Ready(_) => {
                                if in_flight_truth >= limit {
                                    viol.lock().unwrap().push(format!(
                                        "t={}: caller {i} found the service ready with {in_flight_truth} calls in flight, limit {limit}",
                                        sim::now()
                                    ));
                                }
                            }
                        }
                        res
                    })
                    .await?;
                    if ready_gap > 0 && round == 0 {
                        tokio::time::sleep(Duration::from_millis(ready_gap)).await;
                    }
                    }
                    let call = svc.call(req);
                    if drop_unpolled {
                        // the future is discarded before its first poll
                        drop(call);
                        return Err(AdaptiveError::LimitReached);
                    }
                    // polled through a reference; the resolved future object may be kept for a while
                    let mut call = Box::pin(call);
                    let r = call.as_mut().await;
                    if let Some(h) = hold {
                        tokio::time::sleep(Duration::from_millis(h)).await;
                    }
                    drop(call);
                    r
                };
                task[i] = Some(sim.spawn_call(fut, map_outcome));
            }
        }
        for (i, c) in callers.iter().enumerate() {
            if let (Some(d), Some(tk)) = (c.cancel_after, task[i]) {
                if c.at + d == t && sim.state(tk) == TaskState::Live {
                    let entered = log.with(|l| {
                        l.iter()
                            .any(|e| matches!(e, Ev::Enter { req, .. } if req.id == i as u32))
                    });
                    if entered {
                        saw_drop_running = true;
                    }
                    sim.cancel(tk);
                }
            }
        }
        sim.settle().await;
        for (which, pr, sh) in [(1, &probe, &inner.shared), (2, &probe2, &inner2.shared)] {
            let truth = sh.in_flight() as usize;
            let reported = pr.in_flight();
            if reported != truth {
                violations.lock().unwrap().push(format!(
                    "t={t}: in_flight() of service {which} reports {reported} at quiescence but {truth} inner calls are in flight"
                ));
            }
        }
        let lim = probe.limit();
        let (lo, hi) = (probe.algorithm().min_limit(), probe.algorithm().max_limit());
        if lim < lo || lim > hi {
            violations
                .lock()
                .unwrap()
                .push(format!("t={t}: limit() = {lim} outside [{lo}, {hi}]"));
        }
        if !violations.lock().unwrap().is_empty() {
            break;
        }
    }
    if *pending_flag.lock().unwrap() {
        saw_pending = true;
    }
    // probe: drop everything, nothing runs, readiness must be granted (limit >= 1)
    if violations.lock().unwrap().is_empty() {
        for tk in sim.live_tasks() {
            sim.cancel(tk);
        }
        sim.advance(2).await;
        let truth = inner.shared.in_flight() + inner2.shared.in_flight();
        let reported = probe.in_flight() + probe2.in_flight();
        if truth != 0 || reported != 0 {
            violations.lock().unwrap().push(format!(
                "after the history nothing is running (ground truth {truth}) but in_flight() reports {reported}"
            ));
        }
        for pr in [&probe, &probe2] {
            let mut p2 = pr.clone();
            let lim = p2.limit();
            let ready = p2
                .poll_ready(&mut std::task::Context::from_waker(
                    futures::task::noop_waker_ref(),
                ))
                .is_ready();
            if lim >= 1 && !ready {
                violations.lock().unwrap().push(format!(
                    "after the history nothing is running and the limit is {lim}, yet readiness is refused"
                ));
            }
        }
    }
    let snap = log.snapshot();
    if snap.iter().any(|e| matches!(e, Ev::Panicked { .. })) {
        saw_panic = true;
    }
    let mut v = violations.lock().unwrap().clone();
    for (task, msg) in &sim.unexpected_panics {
        v.push(format!("unexpected panic in task {task}: {msg}"));
    }
    let mut classes = vec!["sim_engine"];
    if saw_pending {
        classes.push("readiness_refused_at_limit");
    }
    if saw_drop_running {
        classes.push("in_flight_call_dropped");
    }
    if saw_panic {
        classes.push("in_flight_call_panicked");
    }
    if saw_unpolled_drop {
        classes.push("call_future_dropped_unpolled");
    }
    if saw_sibling {
        classes.push("two_services_of_one_layer");
    }
    if hold.is_some() {
        classes.push("resolved_future_kept_alive");
    }
    if callers.iter().any(|c| c.ready_gap > 0) {
        classes.push("gap_between_readiness_and_call");
    }
    SimVerdict {
        violations: v,
        nontrivial: saw_drop_running || saw_panic || saw_unpolled_drop,
        classes,
        log: snap,
    }
}

/// Several threads use clones of one limiter at once (see `AdaptiveCase::Threads`). Oracle, at
/// quiescence: the reported in-flight count equals the number of call futures still alive, and
/// is zero once those are dropped too.
fn run_threads<A: ConcurrencyAlgorithm + 'static>(algorithm: A, threads: &[Vec<u8>], schedule: &[u8]) -> Report {
    use std::future::Future;
    let mut r = Report::default();
    // inner service: request 1 never completes, request 4 fails, everything else is ready at once
    let inner = tower::service_fn(|kind: u8| async move {
        if kind == 1 || kind == 3 {
            futures::future::pending::<()>().await;
        }
        if kind == 4 {
            Err::<u8, u8>(kind)
        } else {
            Ok::<u8, u8>(kind)
        }
    });
    let layer = AdaptiveLimiterLayer::new(algorithm);
    let base = tower::Layer::layer(&layer, inner);
    type Held = std::pin::Pin<Box<dyn Future<Output = Result<u8, AdaptiveError<u8>>> + Send>>;
    let held: Arc<Mutex<Vec<Held>>> = Arc::new(Mutex::new(vec![]));
    let refused = Arc::new(Mutex::new(0usize));
    let mut bodies: Vec<Box<dyn FnOnce() + Send>> = vec![];
    for ops in threads {
        let mut svc = base.clone();
        let ops = ops.clone();
        let held = held.clone();
        let refused = refused.clone();
        bodies.push(Box::new(move || {
            let waker = futures::task::noop_waker();
            let mut cx = std::task::Context::from_waker(&waker);
            for &op in &ops {
                match svc.poll_ready(&mut cx) {
                    Poll::Ready(Ok(())) => {}
                    _ => {
                        *refused.lock().unwrap() += 1;
                        continue;
                    }
                }
                let mut fut: Held = Box::pin(svc.call(op));
                match op {
                    0 | 4 => {
                        let _ = fut.as_mut().poll(&mut cx);
                    }
                    1 => {
                        let _ = fut.as_mut().poll(&mut cx);
                        held.lock().unwrap().push(fut);
                    }
                    2 => drop(fut),
                    _ => {
                        let _ = fut.as_mut().poll(&mut cx);
                        drop(fut);
                    }
                }
            }
        }));
    }
    let outcome = sched::explore(bodies, schedule, |_view| None);
    if let Some(p) = outcome.panic {
        r.fail(format!("limiter operation panicked: {p}"));
    }
    let alive = held.lock().unwrap().len();
    let reported = base.in_flight();
    if reported != alive {
        r.fail(format!(
            "after {} atomic steps on {} threads ({} preemptions): {alive} calls are still running but the limiter reports {reported} in flight",
            outcome.steps,
            threads.len(),
            outcome.preemptions
        ));
    }
    held.lock().unwrap().clear();
    let after = base.in_flight();
    if after != 0 && r.violation.is_none() {
        r.fail(format!(
            "every call has completed, failed or been dropped but the limiter reports {after} in flight"
        ));
    }
    r.nontrivial = outcome.preemptions > 0 && alive > 0;
    r.class("threads_on_one_limiter");
    if outcome.preemptions > 0 {
        r.class("preemption_inside_admission_or_release");
    }
    if *refused.lock().unwrap() > 0 {
        r.class("readiness_refused_on_a_thread");
    }
    r.trace = json!({"atomic_steps": outcome.steps, "preemptions": outcome.preemptions, "alive_at_end": alive, "reported": reported});
    r
}

pub fn run_case(case: &AdaptiveCase) -> Report {
    match case {
        AdaptiveCase::Threads {
            vegas,
            threads,
            schedule,
        } => {
            if *vegas {
                run_threads(Vegas::builder().initial_limit(8).min_limit(1).max_limit(16).build(), threads, schedule)
            } else {
                run_threads(
                    Aimd::builder()
                        .initial_limit(8)
                        .min_limit(1)
                        .max_limit(16)
                        .latency_threshold(Duration::from_millis(50))
                        .build(),
                    threads,
                    schedule,
                )
            }
        }
        AdaptiveCase::Sched {
            algo,
            threads,
            schedule,
        } => run_sched(algo, threads, schedule),
        AdaptiveCase::Sim {
            vegas,
            min,
            max,
            initial,
            callers,
            order,
            hold,
        } => {
            // builder setters in an order derived from the first order byte (none = as written)
            let perm = order.first().copied().unwrap_or(0) % 8;
            let v = if *vegas {
                let (i0, lo, hi) = (*initial, *min, *max);
                let a = gen::apply_in_order(
                    Vegas::builder(),
                    vec![
                        Box::new(move |b| b.initial_limit(i0)),
                        Box::new(move |b| b.min_limit(lo)),
                        Box::new(move |b| b.max_limit(hi)),
                    ],
                    perm,
                )
                .build();
                sim::run_case(run_sim_generic(a, callers, order, *hold))
            } else {
                let (i0, lo, hi) = (*initial, *min, *max);
                let a = gen::apply_in_order(
                    Aimd::builder(),
                    vec![
                        Box::new(move |b| b.initial_limit(i0)),
                        Box::new(move |b| b.min_limit(lo)),
                        Box::new(move |b| b.max_limit(hi)),
                        Box::new(|b| b.latency_threshold(Duration::from_millis(50))),
                    ],
                    perm,
                )
                .build();
                sim::run_case(run_sim_generic(a, callers, order, *hold))
            };
            let mut r = Report::default();
            if let Some(m) = v.violations.first() {
                r.fail(m.clone());
            }
            r.nontrivial = v.nontrivial;
            r.classes = v.classes;
            let evs: Vec<_> = v.log.iter().take(50).collect();
            r.trace = json!({ "events": evs, "events_total": v.log.len() });
            r
        }
    }
}

pub struct C13;
impl Property for C13 {
    type Case = AdaptiveCase;
    fn id(&self) -> &'static str {
        "C13"
    }
    fn strategy(&self, tier: Tier) -> BoxedStrategy<AdaptiveCase> {
        case_strategy(tier)
    }
    fn budget(&self, tier: Tier) -> (u32, usize) {
        match tier {
            Tier::Quick => (60_000, 8),
            Tier::Thorough => (1_500_000, 16),
        }
    }
    fn run(&self, case: &AdaptiveCase) -> Report {
        run_case(case)
    }
    fn rule(&self) -> String {
        "three generated engines. Threads: clones of one AdaptiveService (Aimd or Vegas, limit 8 in [1,16]) used from 2-3 logical threads x 1-3 operations (call and complete / hold a never-completing call / drop unpolled / drop after one poll / failing call) under a generated schedule of the instrumented atomic steps of readiness check, admission and release; at quiescence in_flight() = calls still alive, and 0 after dropping those. Schedules: AimdController / Aimd / Vegas with min <= max in 0-6, initial 0-9 (also outside the bounds), increase 1-5, factor 0-1, alpha/beta 0-6 (Vegas pre-warmed with 0-12 samples), 2-3 logical threads x 1-6 feedback operations (success with zero / below-threshold / above-threshold / huge latency, failure) under a generated schedule of their atomic steps; after every atomic step min <= limit() <= max. Simulator: AdaptiveService (AIMD or Vegas, limit 1-4 within [min,max]) with 2-10/20 callers on clones (arrival, latency, ok/error/panic/never, cancellation, poll order): at every poll_ready made by a caller and at every quiescent instant in_flight() equals the scripted service's own in-flight count, Pending only if in-flight >= limit, Ready only if in-flight < limit, limit within bounds; after dropping everything in_flight() is 0 and readiness is granted. Non-trivial: schedule with a preemption between atomic steps of limit updates; simulator case in which an in-flight call is dropped or panics; distinct by hash of the case".into()
    }
    fn assumptions(&self) -> Vec<String> {
        vec![
            "sequentially consistent interleavings of atomic operations only".into(),
            "the inner service is always ready, so readiness depends on the limiter alone".into(),
        ]
    }
}
