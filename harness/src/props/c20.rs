//! C20: layers are transparent when not triggered, honour the Tower readiness contract towards the
//! wrapped service, and event listeners only observe. Three generated sub-checks over the thirteen
//! middleware and over stacks from the composition guide.

use crate::runner::{Property, Report, Tier};
use crate::sim::{self, current_task, Ev, Log, Outcome, Req, ScriptedPanic, Sim, TaskState};
use crate::svc::{run_step, Lat, Out, Resp, SErr, Scripted, Step};
use futures::future::BoxFuture;
use proptest::prelude::*;
use serde::{Deserialize, Serialize};
use serde_json::json;
use std::cell::RefCell;
use std::fmt;
use std::rc::Rc;
use std::sync::atomic::{AtomicU32, Ordering};
use std::sync::Arc;
use std::task::{Context, Poll};
use std::time::Duration;
use tower::util::BoxCloneSyncService;
use tower::{Layer, Service, ServiceExt};

// ------------------------------------------------------------------ common error type

/// Error type used at every level of a stack. `Inner` = the scripted service's own error, still
/// intact after passing through the layers' pass-through variants; `Layer` = produced by a layer.
#[derive(Clone, Debug, PartialEq)]
pub enum CErr {
    Inner(SErr),
    Layer(String),
}

impl fmt::Display for CErr {
    fn fmt(&self, f: &mut fmt::Formatter<'_>) -> fmt::Result {
        match self {
            CErr::Inner(e) => write!(f, "I[{},{}]", e.code, e.serial),
            CErr::Layer(s) => write!(f, "L[{s}]"),
        }
    }
}
impl std::error::Error for CErr {}

fn parse_cerr(text: &str) -> CErr {
    if let Some(p) = text.rfind("I[") {
        let tail = &text[p + 2..];
        if let Some(end) = tail.find(']') {
            let mut it = tail[..end].split(',');
            if let (Some(a), Some(b)) = (it.next(), it.next()) {
                if let (Ok(code), Ok(serial)) = (a.parse(), b.parse()) {
                    return CErr::Inner(SErr { code, serial });
                }
            }
        }
    }
    CErr::Layer(text.to_string())
}

pub type Boxed = BoxCloneSyncService<Req, Resp, CErr>;

const READY_ERR: u32 = 555;
const RETRY_CODE: u32 = 42;
const RECONNECT_CODE: u32 = 41;

pub const LAYERS: [&str; 13] = [
    "bulkhead",
    "ratelimiter",
    "circuitbreaker",
    "retry",
    "timelimiter",
    "cache",
    "fallback",
    "hedge",
    "reconnect",
    "adaptive",
    "coalesce",
    "executor",
    "chaos",
];
/// layers that expose EventListeners
pub const LISTENER_LAYERS: [usize; 9] = [0, 1, 2, 3, 4, 5, 6, 7, 12];

// ------------------------------------------------------------------ strict inner service

struct StrictShared {
    inner: Scripted,
    next_inst: AtomicU32,
    /// instance whose poll_ready fails
    fail_inst: Option<u32>,
    /// from this virtual instant on every instance's poll_ready fails (the backend went away)
    fail_from: Option<u64>,
    /// pending polls before readiness, 2 bits per instance (mod 8)
    pend_mask: u16,
    /// after a call an instance stays not ready for this many virtual ms (a backend that needs
    /// time before it can take the next request)
    cool_ms: u64,
}

/// Contract-checking service: `ready` is set by a successful poll_ready, consumed by call, and
/// false on every fresh clone. A call without it is logged, not panicked on.
pub struct Strict {
    sh: Arc<StrictShared>,
    inst: u32,
    ready: bool,
    polls: u32,
    /// while set and not elapsed this instance reports Pending (woken by the timer, no busy-wake)
    cooling: Option<std::sync::Mutex<std::pin::Pin<Box<tokio::time::Sleep>>>>,
    /// poll_ready has returned an error: the Tower contract says this instance is to be discarded
    failed: bool,
}

impl Clone for Strict {
    fn clone(&self) -> Self {
        Strict {
            sh: self.sh.clone(),
            inst: self.sh.next_inst.fetch_add(1, Ordering::SeqCst),
            ready: false,
            polls: 0,
            cooling: None,
            failed: false,
        }
    }
}

impl Strict {
    fn new(inner: Scripted, fail_inst: Option<u32>, pend_mask: u16, cool_ms: u64, fail_from: Option<u64>) -> Self {
        Strict {
            sh: Arc::new(StrictShared {
                inner,
                next_inst: AtomicU32::new(1),
                fail_inst,
                fail_from,
                pend_mask,
                cool_ms,
            }),
            inst: 0,
            ready: false,
            polls: 0,
            cooling: None,
            failed: false,
        }
    }
}

impl Service<Req> for Strict {
    type Response = Resp;
    type Error = SErr;
    type Future = BoxFuture<'static, Result<Resp, SErr>>;

    fn poll_ready(&mut self, cx: &mut Context<'_>) -> Poll<Result<(), SErr>> {
        if self.failed {
            self.sh
                .inner
                .shared
                .log
                .note("used_after_ready_err", self.inst as i64, 0);
        }
        if self.ready {
            return Poll::Ready(Ok(()));
        }
        if let Some(c) = &self.cooling {
            let mut sl = c.lock().unwrap();
            if std::future::Future::poll(sl.as_mut(), cx).is_pending() {
                return Poll::Pending;
            }
            drop(sl);
            self.cooling = None;
        }
        let need = ((self.sh.pend_mask >> (2 * (self.inst % 8))) & 3) as u32 % 3;
        if self.polls < need {
            self.polls += 1;
            cx.waker().wake_by_ref();
            self.sh.inner.shared.log.note("strict_pending", self.inst as i64, 0);
            return Poll::Pending;
        }
        if self.sh.fail_inst == Some(self.inst) || self.sh.fail_from.map_or(false, |f| crate::sim::now() >= f) {
            self.sh
                .inner
                .shared
                .log
                .note("strict_ready_err", self.inst as i64, 0);
            self.failed = true;
            return Poll::Ready(Err(SErr {
                code: READY_ERR,
                serial: self.inst as u64,
            }));
        }
        self.ready = true;
        self.polls = 0;
        Poll::Ready(Ok(()))
    }

    fn call(&mut self, req: Req) -> Self::Future {
        if self.failed {
            self.sh
                .inner
                .shared
                .log
                .note("used_after_ready_err", self.inst as i64, 1);
        }
        if !self.ready {
            self.sh.inner.shared.log.note(
                "contract_violation",
                self.inst as i64,
                req.id as i64,
            );
        }
        self.ready = false;
        if self.sh.cool_ms > 0 {
            self.sh.inner.shared.log.note("strict_cooling", self.inst as i64, self.sh.cool_ms as i64);
            self.cooling = Some(std::sync::Mutex::new(Box::pin(tokio::time::sleep(
                Duration::from_millis(self.sh.cool_ms),
            ))));
        }
        let (serial, step) = self.sh.inner.enter(&req);
        run_step(self.sh.inner.shared.clone(), serial, req, step)
    }
}

// ------------------------------------------------------------------ listeners

#[derive(Clone)]
struct L {
    log: Log,
    j: usize,
    panics: bool,
}

thread_local! {
    /// what a panicking listener panics with: 0 = a non-string payload, 1 = a short &str,
    /// 2.. = a String of about 400 bytes made of two-byte characters after (style - 2) ASCII
    /// bytes (so that every byte offset parity occurs), 6 = a long ASCII String
    static PANIC_STYLE: std::cell::Cell<u8> = const { std::cell::Cell::new(0) };
}

impl L {
    fn hit(&self, kind: i64) {
        self.log.note("listener", self.j as i64, kind);
        if self.panics {
            match PANIC_STYLE.with(|c| c.get()) {
                0 => std::panic::panic_any(ScriptedPanic),
                1 => std::panic::panic_any("listener failed"),
                6 => std::panic::panic_any("listener failed: ".to_string() + &"x".repeat(600)),
                k => std::panic::panic_any("x".repeat((k - 2) as usize) + &"\u{e9}".repeat(200)),
            }
        }
    }
}

#[derive(Clone)]
pub struct ListenerSpec {
    log: Log,
    /// per listener: does it panic?
    panics: Vec<bool>,
}

impl ListenerSpec {
    fn each(&self) -> Vec<L> {
        self.panics
            .iter()
            .enumerate()
            .map(|(j, &p)| L {
                log: self.log.clone(),
                j,
                panics: p,
            })
            .collect()
    }
}

struct HedgeListener(L);
impl tower_resilience_core::EventListener<tower_resilience_hedge::HedgeEvent> for HedgeListener {
    fn on_event(&self, event: &tower_resilience_hedge::HedgeEvent) {
        use tower_resilience_core::ResilienceEvent;
        let k = event.event_type().len() as i64;
        self.0.hit(k);
    }
}

// ------------------------------------------------------------------ the thirteen layers

thread_local! {
    /// transparency variant: 1 = wherever a layer has a natural "unbounded" sentinel
    /// (`Duration::MAX` = no timeout / never expires / wait for ever) the non-triggering
    /// configuration uses it instead of a merely large value
    static UNBOUNDED: std::cell::Cell<bool> = const { std::cell::Cell::new(false) };
}
fn unbounded() -> bool {
    UNBOUNDED.with(|c| c.get())
}
thread_local! {
    /// readiness variant: the layers that queue or pace callers are configured tight (bulkhead
    /// with one slot and unbounded waiting, rate limiter with 2 permits per 5 ms and a long
    /// timeout), so that callers wait INSIDE the layer between the readiness check and the call;
    /// the time limiter runs in its non-cancelling mode (inner call on a task of its own)
    static TIGHT: std::cell::Cell<bool> = const { std::cell::Cell::new(false) };
}
fn tight() -> bool {
    TIGHT.with(|c| c.get())
}

/// Mode 0: non-triggering configuration (transparency). Mode 1: configuration in which retries,
/// hedges and reconnects happen (readiness). Mode 2: configuration that produces several kinds of
/// events (listeners).
#[allow(clippy::too_many_lines)]
pub fn wrap<S>(layer: usize, inner: S, mode: u8, ls: Option<&ListenerSpec>) -> Boxed
where
    S: Service<Req, Response = Resp, Error = CErr> + Clone + Send + Sync + 'static,
    S::Future: Send + 'static,
{
    let listeners: Vec<L> = ls.map(|l| l.each()).unwrap_or_default();
    match layer {
        0 => {
            use tower_resilience_bulkhead::{BulkheadLayer, BulkheadServiceError};
            let mut b = BulkheadLayer::builder();
            b = if mode == 2 {
                b.max_concurrent_calls(1).reject_when_full()
            } else if mode == 0 && unbounded() {
                b.max_concurrent_calls(64).max_wait_duration(Duration::MAX)
            } else if mode == 1 && tight() {
                b.max_concurrent_calls(1)
            } else {
                b.max_concurrent_calls(64)
            };
            for l in &listeners {
                let (a, c, d, e) = (l.clone(), l.clone(), l.clone(), l.clone());
                b = b
                    .on_call_permitted(move |_| a.hit(1))
                    .on_call_rejected(move |_| c.hit(2))
                    .on_call_finished(move |_| d.hit(3))
                    .on_call_failed(move |_| e.hit(4));
            }
            Boxed::new(b.build().layer(inner).map_err(|e| match e {
                BulkheadServiceError::Inner(e) => e,
                BulkheadServiceError::Bulkhead(b) => CErr::Layer(format!("bulkhead:{b}")),
            }))
        }
        1 => {
            use tower_resilience_ratelimiter::{RateLimiterLayer, RateLimiterServiceError};
            let mut b = RateLimiterLayer::builder()
                // readiness sub-check (mode 1), tight variant: a small window and a long timeout, so
                // that callers are admitted after waiting for a later window (a waiter that finds
                // the later window taken as well is rejected: a legitimate outcome there)
                .limit_for_period(if mode == 2 || (mode == 1 && tight()) { 2 } else { 1000 })
                .refresh_period(Duration::from_millis(if mode == 2 { 20 } else if mode == 1 && tight() { 5 } else { 1000 }))
                .timeout_duration(if mode == 0 && unbounded() {
                    Duration::MAX
                } else if mode == 1 && tight() {
                    Duration::from_secs(10)
                } else {
                    Duration::ZERO
                });
            for l in &listeners {
                let (a, c, d) = (l.clone(), l.clone(), l.clone());
                b = b
                    .on_permit_acquired(move |_| a.hit(1))
                    .on_permit_rejected(move |_| c.hit(2))
                    .on_permits_refreshed(move |_| d.hit(3));
            }
            Boxed::new(b.build().layer(inner).map_err(|e| match e {
                RateLimiterServiceError::Inner(e) => e,
                RateLimiterServiceError::RateLimited => CErr::Layer("ratelimited".into()),
            }))
        }
        2 => {
            use tower_resilience_circuitbreaker::{CircuitBreakerError, CircuitBreakerLayer};
            let mut b = CircuitBreakerLayer::builder().name("c20");
            if mode == 0 && unbounded() {
                b = b
                    .wait_duration_in_open(Duration::MAX)
                    .slow_call_duration_threshold(Duration::MAX);
            }
            if mode == 2 {
                b = b
                    .sliding_window_size(2)
                    .failure_rate_threshold(0.5)
                    .wait_duration_in_open(Duration::from_millis(15));
            }
            if mode == 1 {
                // readiness: the breaker goes through open -> half-open -> closed cycles, so that
                // rejections, trial calls and ordinary calls all occur
                b = b
                    .sliding_window_size(2)
                    .minimum_number_of_calls(2)
                    .failure_rate_threshold(0.5)
                    .permitted_calls_in_half_open(1)
                    .wait_duration_in_open(Duration::from_millis(4));
            }
            for l in &listeners {
                let (a, c, d, e, f, g) = (l.clone(), l.clone(), l.clone(), l.clone(), l.clone(), l.clone());
                b = b
                    .on_state_transition(move |_, _| a.hit(1))
                    .on_call_permitted(move |_| c.hit(2))
                    .on_call_rejected(move || d.hit(3))
                    .on_success(move |_| e.hit(4))
                    .on_failure(move |_| f.hit(5))
                    .on_slow_call(move |_| g.hit(6));
            }
            Boxed::new(b.build().layer_fn(inner).map_err(|e| match e {
                CircuitBreakerError::Inner(e) => e,
                CircuitBreakerError::OpenCircuit => CErr::Layer("open".into()),
            }))
        }
        3 => {
            use tower_resilience_retry::RetryLayer;
            let mut b = RetryLayer::<Req, CErr>::builder()
                .max_attempts(3)
                .fixed_backoff(if mode == 0 && unbounded() { Duration::MAX } else { Duration::from_millis(1) })
                // a readiness error looks retryable to the predicate: it still has to surface
                .retry_on(|e: &CErr| matches!(e, CErr::Inner(s) if s.code == RETRY_CODE || s.code == READY_ERR));
            for l in &listeners {
                let (a, c, d, e, f) = (l.clone(), l.clone(), l.clone(), l.clone(), l.clone());
                b = b
                    .on_budget_exhausted(move |_| a.hit(1))
                    .on_retry(move |_, _| c.hit(2))
                    .on_success(move |_| d.hit(3))
                    .on_error(move |_| e.hit(4))
                    .on_ignored_error(move || f.hit(5));
            }
            Boxed::new(b.build().layer(inner))
        }
        4 => {
            use tower_resilience_timelimiter::{TimeLimiterError, TimeLimiterLayer};
            let mut b = TimeLimiterLayer::builder()
                .timeout_duration(if mode == 0 && unbounded() {
                    Duration::MAX
                } else {
                    Duration::from_millis(if mode == 2 { 20 } else { 10_000 })
                });
            if mode == 1 && tight() {
                // the other mode of the limiter: the inner call runs on a task of its own
                b = b.cancel_running_future(false);
            }
            for l in &listeners {
                let (a, c, d) = (l.clone(), l.clone(), l.clone());
                b = b
                    .on_success(move |_| a.hit(1))
                    .on_error(move |_| c.hit(2))
                    .on_timeout(move || d.hit(3));
            }
            Boxed::new(b.build().layer(inner).map_err(|e| match e {
                TimeLimiterError::Inner(e) => e,
                TimeLimiterError::Timeout => CErr::Layer("timeout".into()),
            }))
        }
        5 => {
            use tower_resilience_cache::{CacheError, CacheLayer};
            let modulo = if mode == 2 { 2 } else { u32::MAX };
            let mut b = CacheLayer::<Req, u32>::builder()
                .max_size(if mode == 2 { 1 } else { 100 })
                .key_extractor(move |r: &Req| r.id % modulo);
            if mode == 0 && unbounded() {
                b = b.ttl(Duration::MAX);
            }
            for l in &listeners {
                let (a, c, d) = (l.clone(), l.clone(), l.clone());
                b = b
                    .on_hit(move || a.hit(1))
                    .on_miss(move || c.hit(2))
                    .on_eviction(move || d.hit(3));
            }
            Boxed::new(b.build().layer(inner).map_err(|e| match e {
                CacheError::Inner(e) => e,
            }))
        }
        6 => {
            use tower_resilience_fallback::{FallbackError, FallbackLayer};
            let mut b = FallbackLayer::<Req, Resp, CErr>::builder().value(Resp {
                serial: 4_000_000_000,
                req: Req {
                    id: 0,
                    key: 0,
                    tag: 0,
                },
            });
            b = if mode == 2 {
                b.handle(|e: &CErr| matches!(e, CErr::Inner(s) if s.code % 2 == 1))
            } else {
                b.handle(|_e: &CErr| false)
            };
            for l in &listeners {
                let a = l.clone();
                b = b.on_event(move |ev| {
                    use tower_resilience_core::ResilienceEvent;
                    a.hit(ev.event_type().len() as i64)
                });
            }
            Boxed::new(b.build().layer(inner).map_err(|e| match e {
                FallbackError::Inner(e) => e,
                FallbackError::FallbackFailed(e) => CErr::Layer(format!("fallback_failed:{e}")),
            }))
        }
        7 => {
            use tower_resilience_hedge::{HedgeError, HedgeLayer};
            let mut b = HedgeLayer::builder().name("c20").max_hedged_attempts(match mode {
                0 => 2,
                3 => 1,
                _ => 3,
            });
            b = match mode {
                0 | 3 if unbounded() => b.delay(Duration::MAX),
                0 | 3 => b.delay(Duration::from_secs(10)),
                _ => b.delay(Duration::from_millis(3)),
            };
            for l in &listeners {
                b = b.on_event(HedgeListener(l.clone()));
            }
            Boxed::new(b.build().layer(inner).map_err(|e| match e {
                HedgeError::Inner(e) => e,
                // the only way hedge surfaces an inner call error
                HedgeError::AllAttemptsFailed(e) => e,
            }))
        }
        8 => {
            use tower_resilience_reconnect::{ReconnectConfig, ReconnectLayer, ReconnectPolicy};
            let needle = format!("I[{RECONNECT_CODE},");
            // a readiness error looks reconnectable to the predicate: it still has to surface
            let needle2 = format!("I[{READY_ERR},");
            let cfg = ReconnectConfig::builder()
                .max_attempts(3)
                .policy(ReconnectPolicy::fixed(Duration::from_millis(1)))
                .retry_on_reconnect(true)
                .reconnect_predicate(move |e| {
                    let text = e.to_string();
                    text.contains(&needle) || text.contains(&needle2)
                })
                .build();
            Boxed::new(
                ReconnectLayer::new(cfg)
                    .layer(inner)
                    .map_err(|e| parse_cerr(&e.to_string())),
            )
        }
        9 => {
            use tower_resilience_adaptive::{AdaptiveError, AdaptiveLimiterLayer, Aimd};
            let algo = Aimd::builder()
                .initial_limit(50)
                .min_limit(10)
                .max_limit(100)
                .latency_threshold(Duration::from_secs(60))
                .build();
            Boxed::new(AdaptiveLimiterLayer::new(algo).layer(inner).map_err(|e| match e {
                AdaptiveError::Service(e) => e,
                AdaptiveError::LimitReached => CErr::Layer("limit".into()),
            }))
        }
        10 => {
            use tower_resilience_coalesce::{CoalesceError, CoalesceLayer};
            Boxed::new(
                CoalesceLayer::new(|r: &Req| r.id)
                    .layer(inner)
                    .map_err(|e| match e {
                        CoalesceError::Service(e) => e,
                        CoalesceError::LeaderCancelled => CErr::Layer("leader_cancelled".into()),
                        CoalesceError::RecvError => CErr::Layer("recv".into()),
                    }),
            )
        }
        11 => {
            use tower_resilience_executor::{ExecutorError, ExecutorLayer};
            Boxed::new(ExecutorLayer::current().layer(inner).map_err(|e| match e {
                ExecutorError::Service(e) => e,
                ExecutorError::TaskCancelled => CErr::Layer("task_cancelled".into()),
            }))
        }
        _ => {
            use tower_resilience_chaos::ChaosLayer;
            let (er, lr) = if mode == 2 { (0.4, 0.4) } else { (0.0, 0.0) };
            let mut b = ChaosLayer::builder()
                .name("c20")
                .error_rate(er)
                .error_fn(|_r: &Req| CErr::Layer("chaos".into()))
                .latency_rate(lr)
                .min_latency(Duration::from_millis(1))
                .max_latency(if mode == 0 && unbounded() { Duration::MAX } else { Duration::from_millis(4) })
                .seed(7);
            for l in &listeners {
                let (a, c, d) = (l.clone(), l.clone(), l.clone());
                b = b
                    .on_error_injected(move || a.hit(1))
                    .on_latency_injected(move |_| c.hit(2))
                    .on_passed_through(move || d.hit(3));
            }
            Boxed::new(b.build().layer(inner))
        }
    }
}

/// Stacks from the composition guide (outermost first), as indices into LAYERS.
pub const STACKS: [&[usize]; 6] = [
    &[4, 3],           // timeout(retry(svc))
    &[4, 3, 2, 4],     // total timeout, retry, circuit breaker, per-attempt timeout
    &[6, 4, 3, 2, 4],  // fallback on top of that
    &[4, 3, 0],        // timeout, retry, bulkhead
    &[1, 0, 4],        // rate limiter, bulkhead, timeout
    &[4, 10, 2],       // timeout, coalesce, circuit breaker
];

fn build_stack(stack: &[usize], base: Boxed, mode: u8) -> Boxed {
    let mut s = base;
    for &l in stack.iter().rev() {
        s = wrap(l, s, mode, None);
    }
    s
}

fn base_of<X>(x: X) -> Boxed
where
    X: Service<Req, Response = Resp, Error = SErr> + Clone + Send + Sync + 'static,
    X::Future: Send + 'static,
{
    Boxed::new(x.map_err(CErr::Inner))
}

// ------------------------------------------------------------------ cases

#[derive(Clone, Debug, Serialize, Deserialize)]
pub enum C20Case {
    Transparency {
        /// 0..13 single layer, 13.. stack index + 13
        target: u8,
        req_id: u32,
        req_key: u32,
        req_tag: u64,
        /// None = ok, Some(code) = error (never a trigger code)
        err: Option<u8>,
        lat: u8,
        /// non-triggering configuration written with the "unbounded" sentinels (Duration::MAX)
        #[serde(default)]
        unbounded: bool,
    },
    Readiness {
        layer: u8,
        /// 0 strict, 1 tower Buffer over strict, 2 tower ConcurrencyLimit over strict
        inner: u8,
        pend_mask: u16,
        fail_inst: Option<u8>,
        /// after each call the strict instance is not ready for this many ms
        #[serde(default)]
        cool_ms: u8,
        /// from this instant on every inner instance fails its readiness check
        #[serde(default)]
        fail_from: Option<u8>,
        /// per request: (instance 0..3, gap ms, first attempt fails with the layer's trigger code, latency)
        requests: Vec<(u8, u8, bool, u8)>,
        /// bulkhead / rate limiter configured so that callers wait inside the layer
        #[serde(default)]
        tight: bool,
    },
    Listeners {
        /// index into LISTENER_LAYERS
        layer: u8,
        panics: Vec<bool>,
        /// per request: (gap ms, outcome code 0 ok / 1..=4 error, latency ms)
        requests: Vec<(u8, u8, u8)>,
        /// payload of the listeners' panics (see PANIC_STYLE)
        #[serde(default)]
        panic_style: u8,
    },
}

fn case_strategy(_tier: Tier) -> BoxedStrategy<C20Case> {
    let transparency = (
        0u8..(13 + STACKS.len() as u8),
        any::<u32>(),
        any::<u32>(),
        any::<u64>(),
        prop_oneof![1 => Just(None), 1 => (1u8..=40).prop_map(Some)],
        0u8..=6,
        prop::bool::weighted(0.3),
    )
        .prop_map(|(target, req_id, req_key, req_tag, err, lat, unbounded)| C20Case::Transparency {
            target,
            req_id,
            req_key,
            req_tag,
            err,
            lat,
            unbounded,
        });
    let readiness = (
        0u8..(13 + STACKS.len() as u8),
        0u8..3,
        prop_oneof![1 => Just(0u16), 1 => any::<u16>()],
        prop_oneof![3 => Just(None), 1 => (0u8..8).prop_map(Some)],
        prop_oneof![2 => Just(0u8), 1 => 1u8..=8],
        prop::collection::vec((0u8..3, 0u8..=5, any::<bool>(), prop_oneof![Just(0u8), Just(10u8), 0u8..=12]), 1..=6),
        (prop_oneof![3 => Just(None), 1 => (0u8..=30).prop_map(Some)], prop::bool::weighted(0.4)),
    )
        .prop_map(|(layer, inner, pend_mask, fail_inst, cool_ms, requests, (fail_from, tight))| C20Case::Readiness {
            layer,
            inner,
            pend_mask,
            fail_inst,
            cool_ms,
            fail_from,
            requests,
            tight,
        });
    let listeners = (
        0u8..LISTENER_LAYERS.len() as u8,
        prop::collection::vec(any::<bool>(), 1..=4),
        prop::collection::vec((0u8..=4, 0u8..=4, prop_oneof![2 => Just(0u8), 1 => 0u8..=30]), 1..=6),
        prop_oneof![3 => Just(0u8), 4 => 1u8..=6],
    )
        .prop_map(|(layer, panics, requests, panic_style)| C20Case::Listeners {
            layer,
            panics,
            requests,
            panic_style,
        });
    prop_oneof![3 => transparency, 4 => readiness, 3 => listeners].boxed()
}

fn map_outcome(r: Result<Resp, CErr>) -> Outcome {
    match r {
        Ok(resp) => Outcome::Ok {
            serial: resp.serial,
            req: resp.req,
        },
        Err(CErr::Inner(e)) => Outcome::Inner {
            code: e.code,
            serial: e.serial,
        },
        Err(CErr::Layer(s)) => Outcome::Layer(s),
    }
}

// ------------------------------------------------------------------ transparency

async fn transparency(target: usize, req: Req, err: Option<u8>, lat: u8) -> (Vec<String>, Vec<Ev>) {
    let mut v = vec![];
    let log = Log::new();
    let mut sim = Sim::new(log.clone(), vec![]);
    let code = err.map(|c| {
        // never the trigger codes of retry / reconnect
        let c = c as u32;
        if c == RETRY_CODE || c == RECONNECT_CODE {
            c + 100
        } else {
            c
        }
    });
    let inner = Scripted::new(log.clone(), 1, move |_, _, _| match code {
        None => Step::ok(lat as u64),
        Some(c) => Step::err(lat as u64, c),
    });
    let base = base_of(inner.clone());
    let name;
    let mut svc = if target < 13 {
        name = LAYERS[target].to_string();
        // a failing primary makes hedge wait for its hedges: with an error outcome use one attempt
        wrap(target, base, if target == 7 && code.is_some() { 3 } else { 0 }, None)
    } else {
        let st = STACKS[target - 13];
        name = format!("stack {:?}", st.iter().map(|&l| LAYERS[l]).collect::<Vec<_>>());
        build_stack(st, base, 0)
    };
    let task = {
        let req = req.clone();
        sim.spawn_call(
            async move {
                futures::future::poll_fn(|cx| svc.poll_ready(cx)).await?;
                svc.call(req).await
            },
            map_outcome,
        )
    };
    sim.settle().await;
    let mut guard = 0;
    while sim.state(task) == TaskState::Live && guard < 200 {
        sim.tick().await;
        guard += 1;
    }
    let snap = log.snapshot();
    let enters: Vec<(u64, Req)> = snap
        .iter()
        .filter_map(|e| match e {
            Ev::Enter { serial, req, .. } => Some((*serial, req.clone())),
            _ => None,
        })
        .collect();
    if enters.len() != 1 {
        v.push(format!(
            "{name}: the wrapped service was entered {} times for one request",
            enters.len()
        ));
    } else if enters[0].1 != req {
        v.push(format!(
            "{name}: the wrapped service received {:?} instead of {:?}",
            enters[0].1, req
        ));
    }
    let resolve = snap.iter().find_map(|e| match e {
        Ev::Resolve { out, .. } => Some(out.clone()),
        _ => None,
    });
    match (resolve, enters.first()) {
        (Some(Outcome::Ok { serial, req: rq }), Some((s, _))) => {
            if code.is_some() || serial != *s || rq != req {
                v.push(format!(
                    "{name}: caller got Ok(serial {serial}, {rq:?}); inner call {s} answered {}",
                    if code.is_some() { "an error" } else { "with another payload" }
                ));
            }
        }
        (Some(Outcome::Inner { code: c, serial }), Some((s, _))) => {
            if code != Some(c) || serial != *s {
                v.push(format!(
                    "{name}: caller got error (code {c}, serial {serial}); inner call {s} produced {code:?}"
                ));
            }
        }
        (other, _) => v.push(format!(
            "{name}: caller outcome {other:?} is not the inner result passed through"
        )),
    }
    for (task, msg) in &sim.unexpected_panics {
        v.push(format!("{name}: unexpected panic in task {task}: {msg}"));
    }
    (v, snap)
}

// ------------------------------------------------------------------ readiness

async fn readiness(
    layer: usize,
    inner_kind: u8,
    pend_mask: u16,
    fail_inst: Option<u8>,
    cool_ms: u8,
    fail_from: Option<u8>,
    requests: &[(u8, u8, bool, u8)],
) -> (Vec<String>, Vec<Ev>, bool) {
    let mut v = vec![];
    let log = Log::new();
    let mut sim = Sim::new(log.clone(), vec![]);
    let stack: Option<&[usize]> = if layer >= 13 { Some(STACKS[(layer - 13) % STACKS.len()]) } else { None };
    let has = |l: usize| stack.map_or(layer == l, |st| st.contains(&l));
    let trigger = if has(3) {
        RETRY_CODE
    } else if has(8) {
        RECONNECT_CODE
    } else {
        7
    };
    let lname: String = match stack {
        Some(st) => format!("stack {:?}", st.iter().map(|&l| LAYERS[l]).collect::<Vec<_>>()),
        None => LAYERS[layer].to_string(),
    };
    let reqs = requests.to_vec();
    let scripted = Scripted::new(log.clone(), 1, move |req, k, _| {
        let (_, _, fail_first, lat) = reqs[req.id as usize % reqs.len()];
        if k == 0 && fail_first {
            Step::err(lat as u64, trigger)
        } else {
            Step {
                lat: Lat::Ms(lat as u64),
                out: Out::Ok,
            }
        }
    });
    let strict = Strict::new(
        scripted.clone(),
        fail_inst.map(|f| f as u32),
        pend_mask,
        cool_ms as u64,
        fail_from.map(|f| f as u64),
    );
    let base: Boxed = match inner_kind {
        0 => base_of(strict),
        1 => {
            let buf = tower::buffer::Buffer::new(strict, 8);
            Boxed::new(buf.map_err(|e: tower::BoxError| match e.downcast::<SErr>() {
                Ok(s) => CErr::Inner(*s),
                Err(e) => CErr::Layer(format!("buffer:{e}")),
            }))
        }
        _ => base_of(tower::limit::ConcurrencyLimit::new(strict, 4)),
    };
    let top = match stack {
        Some(st) => build_stack(st, base, 1),
        None => wrap(layer, base, 1, None),
    };
    let slots: Vec<Rc<RefCell<Option<Boxed>>>> = (0..3)
        .map(|_| Rc::new(RefCell::new(Some(top.clone()))))
        .collect();
    drop(top);
    let n = requests.len();
    let mut at = vec![0u64; n];
    let mut acc = 0u64;
    for (i, r) in requests.iter().enumerate() {
        acc += r.1 as u64;
        at[i] = acc;
    }
    // a serialising inner service (Buffer, cooling instances) queues the calls: every request may
    // cause up to four inner calls (attempts, hedges), each holding the instance for cool + latency
    let max_lat = requests.iter().map(|r| r.3 as u64).max().unwrap_or(0);
    let horizon = acc + 120 + n as u64 * 4 * (cool_ms as u64 + max_lat) + if tight() { n as u64 * 4 * 5 } else { 0 };
    let mut task: Vec<Option<usize>> = vec![None; n];
    let mut skipped = vec![false; n];
    let mut multi_call_instance = false;
    let mut uses = vec![0usize; 3];
    for t in 0..=horizon {
        if t > 0 {
            sim.begin_instant().await;
        }
        for i in 0..n {
            if at[i] == t {
                let slot = slots[requests[i].0 as usize % 3].clone();
                let Some(mut svc) = slot.borrow_mut().take() else {
                    skipped[i] = true;
                    continue;
                };
                uses[requests[i].0 as usize % 3] += 1;
                if uses[requests[i].0 as usize % 3] >= 2 {
                    multi_call_instance = true;
                }
                let req = Req {
                    id: i as u32,
                    key: 0,
                    tag: 0x2000 + i as u64,
                };
                let lg = log.clone();
                let fut = async move {
                    // readiness of the outer service; an inner readiness error hit during this
                    // very poll must come out of it with its payload
                    let r = futures::future::poll_fn(|cx| {
                        let before = lg.with(|l| {
                            l.iter()
                                .filter(|e| matches!(e, Ev::Note { kind: "strict_ready_err", .. }))
                                .count()
                        });
                        let r = svc.poll_ready(cx);
                        let errs: Vec<i64> = lg.with(|l| {
                            l.iter()
                                .filter_map(|e| match e {
                                    Ev::Note {
                                        kind: "strict_ready_err",
                                        a,
                                        ..
                                    } => Some(*a),
                                    _ => None,
                                })
                                .skip(before)
                                .collect()
                        });
                        if let Some(inst) = errs.first() {
                            let ok = matches!(&r, Poll::Ready(Err(CErr::Inner(e))) if e.code == READY_ERR && e.serial == *inst as u64);
                            lg.note("outer_ready_err", *inst, ok as i64);
                        }
                        r
                    })
                    .await;
                    match r {
                        Err(e) => {
                            // a failed service must not be used again: leave the slot empty
                            Err(e)
                        }
                        Ok(()) => {
                            let f = svc.call(req);
                            *slot.borrow_mut() = Some(svc);
                            f.await
                        }
                    }
                };
                task[i] = Some(sim.spawn_call(fut, map_outcome));
            }
        }
        sim.settle().await;
    }
    let snap = log.snapshot();
    for e in &snap {
        match e {
            Ev::Note {
                kind: "contract_violation",
                a,
                b,
                t,
            } => v.push(format!(
                "t={t}: {} called inner service instance {a} for request {b} without having observed its readiness since that instance's previous call",
                lname
            )),
            Ev::Note {
                kind: "used_after_ready_err",
                a,
                b,
                t,
            } => v.push(format!(
                "t={t}: {} {} inner service instance {a} again after that instance's poll_ready had returned an error (a failed service must be discarded; the readiness error has to surface instead)",
                lname,
                if *b == 1 { "called" } else { "polled" }
            )),
            Ev::Note {
                kind: "outer_ready_err",
                a,
                b: 0,
                t,
            } => v.push(format!(
                "t={t}: inner instance {a} failed poll_ready but {}'s poll_ready did not return that error",
                lname
            )),
            Ev::TaskPanic {
                scripted: false,
                msg,
                t,
                ..
            } => v.push(format!(
                "t={t}: {} over {} panicked: {msg}",
                lname,
                ["strict", "tower Buffer", "tower ConcurrencyLimit"][inner_kind as usize]
            )),
            _ => {}
        }
    }
    let any_ready_err = snap
        .iter()
        .any(|e| matches!(e, Ev::Note { kind: "strict_ready_err", .. }));
    // every request gets a result of one of its own inner calls (unless readiness failed somewhere)
    let mut retried = false;
    for i in 0..n {
        let Some(tk) = task[i] else { continue };
        let enters: Vec<u64> = snap
            .iter()
            .filter_map(|e| match e {
                Ev::Enter { serial, req, .. } if req.id == i as u32 => Some(*serial),
                _ => None,
            })
            .collect();
        if enters.len() >= 2 {
            retried = true;
        }
        let resolve = snap.iter().find_map(|e| match e {
            Ev::Resolve { task, out, .. } if *task == tk => Some(out.clone()),
            _ => None,
        });
        if tight() && has(1) && resolve.is_some() {
            // rejections by the tight rate limiter are legitimate; the contract checks count
            continue;
        }
        if has(2) && resolve.is_some() {
            // with the breaker cycling, rejections (and what outer layers make of them) are
            // legitimate outcomes; the contract checks above are what this sub-check is about
            continue;
        }
        if any_ready_err {
            if resolve.is_none() {
                v.push(format!(
                    "{} over {}: an inner readiness error occurred and request {i} never resolved (readiness errors must surface)",
                    lname,
                    ["strict", "tower Buffer", "tower ConcurrencyLimit"][inner_kind as usize]
                ));
            }
            continue;
        }
        match resolve {
            None => v.push(format!(
                "{} over {}: request {i} never resolved",
                lname,
                ["strict", "tower Buffer", "tower ConcurrencyLimit"][inner_kind as usize]
            )),
            Some(Outcome::Ok { serial, req }) => {
                if !enters.contains(&serial) || req.id != i as u32 {
                    v.push(format!("request {i}: response is not from one of its own inner calls"));
                }
            }
            Some(Outcome::Inner { serial, code }) => {
                if !enters.contains(&serial) {
                    v.push(format!("request {i}: error {code} is not from one of its own inner calls"));
                }
                if (has(3) || has(8)) && code == trigger {
                    v.push(format!(
                        "request {i}: {} gave up with the retryable error although the second attempt succeeds",
                        lname
                    ));
                }
            }
            Some(other) => v.push(format!(
                "{} over {}: request {i} resolved with {other:?} although nothing should trigger the layer",
                lname,
                ["strict", "tower Buffer", "tower ConcurrencyLimit"][inner_kind as usize]
            )),
        }
    }
    for (task, msg) in &sim.unexpected_panics {
        v.push(format!("unexpected panic in task {task}: {msg}"));
    }
    (v, snap, multi_call_instance || retried)
}

// ------------------------------------------------------------------ listeners

#[derive(PartialEq, Debug, Clone)]
struct ListenerRun {
    outcomes: Vec<Option<Outcome>>,
    /// (request id, t) of inner entries
    inner: Vec<(u32, u64)>,
    /// per listener: sequence of event kinds
    events: Vec<Vec<i64>>,
}

async fn listener_run(layer: usize, panics: Option<&[bool]>, requests: &[(u8, u8, u8)]) -> (ListenerRun, Vec<String>) {
    let mut v = vec![];
    let log = Log::new();
    let mut sim = Sim::new(log.clone(), vec![]);
    let reqs = requests.to_vec();
    let inner = Scripted::new(log.clone(), 1, move |req, k, _| {
        let (_, o, lat) = reqs[req.id as usize % reqs.len()];
        let code = match (o, k) {
            (0, _) => None,
            (4, 0) => Some(RETRY_CODE),
            (4, _) => None,
            (c, _) => Some(c as u32),
        };
        match code {
            None => Step::ok(lat as u64),
            Some(c) => Step::err(lat as u64, c),
        }
    });
    let spec = panics.map(|p| ListenerSpec {
        log: log.clone(),
        panics: p.to_vec(),
    });
    let mut svc = wrap(layer, base_of(inner.clone()), 2, spec.as_ref());
    let n = requests.len();
    let mut at = vec![0u64; n];
    let mut acc = 0u64;
    for (i, r) in requests.iter().enumerate() {
        acc += r.0 as u64;
        at[i] = acc;
    }
    let horizon = acc + 90;
    let mut task = vec![None; n];
    for t in 0..=horizon {
        if t > 0 {
            sim.begin_instant().await;
        }
        for i in 0..n {
            if at[i] == t {
                let req = Req {
                    id: i as u32,
                    key: 0,
                    tag: 0x3000 + i as u64,
                };
                let _ = futures::future::poll_fn(|cx| svc.poll_ready(cx)).await;
                let fut = svc.call(req);
                task[i] = Some(sim.spawn_call(fut, map_outcome));
            }
        }
        sim.settle().await;
    }
    let snap = log.snapshot();
    let k = panics.map_or(0, |p| p.len());
    let mut events = vec![vec![]; k];
    for e in &snap {
        if let Ev::Note {
            kind: "listener",
            a,
            b,
            ..
        } = e
        {
            events[*a as usize].push(*b);
        }
    }
    let outcomes = (0..n)
        .map(|i| {
            snap.iter().find_map(|e| match e {
                Ev::Resolve { task: tk, out, .. } if Some(*tk) == task[i] => Some(out.clone()),
                _ => None,
            })
        })
        .collect();
    let inner_entries = snap
        .iter()
        .filter_map(|e| match e {
            Ev::Enter { req, t, .. } => Some((req.id, *t)),
            _ => None,
        })
        .collect();
    for (task, msg) in &sim.unexpected_panics {
        v.push(format!("unexpected panic in task {task}: {msg}"));
    }
    for e in &snap {
        if let Ev::TaskPanic { task, .. } = e {
            v.push(format!(
                "{}: a listener panic escaped into call task {task}",
                LAYERS[layer]
            ));
        }
    }
    let _ = current_task();
    (
        ListenerRun {
            outcomes,
            inner: inner_entries,
            events,
        },
        v,
    )
}

// ------------------------------------------------------------------ property

pub fn run_case(case: &C20Case) -> Report {
    let mut r = Report::default();
    match case {
        C20Case::Transparency {
            target,
            req_id,
            req_key,
            req_tag,
            err,
            lat,
            unbounded,
        } => {
            let req = Req {
                id: *req_id,
                key: *req_key,
                tag: *req_tag,
            };
            UNBOUNDED.with(|c| c.set(*unbounded));
            let (v, log) = sim::run_case(transparency(*target as usize, req, *err, *lat));
            UNBOUNDED.with(|c| c.set(false));
            for m in v {
                r.fail(m);
            }
            r.class("transparency");
            if *unbounded {
                r.class("transparency_with_unbounded_sentinels");
            }
            if *target as usize >= 13 {
                r.class("transparency_stack");
            }
            r.nontrivial = true;
            r.trace = json!({"events": log.iter().take(12).collect::<Vec<_>>() });
        }
        C20Case::Readiness {
            layer,
            inner,
            pend_mask,
            fail_inst,
            cool_ms,
            fail_from,
            requests,
            tight,
        } => {
            TIGHT.with(|c| c.set(*tight));
            let (v, log, nontrivial) = sim::run_case(readiness(
                *layer as usize,
                *inner,
                *pend_mask,
                *fail_inst,
                *cool_ms,
                *fail_from,
                requests,
            ));
            TIGHT.with(|c| c.set(false));
            for m in v {
                r.fail(m);
            }
            r.class("readiness");
            if *tight {
                r.class("readiness_callers_wait_inside_bulkhead_or_rate_limiter");
            }
            r.class(["inner_strict", "inner_tower_buffer", "inner_tower_concurrency_limit"][*inner as usize]);
            if log.iter().any(|e| matches!(e, Ev::Note { kind: "strict_ready_err", .. })) {
                r.class("inner_readiness_error");
            }
            if fail_from.is_some() && log.iter().any(|e| matches!(e, Ev::Note { kind: "strict_ready_err", .. })) {
                r.class("inner_readiness_fails_from_some_instant_on");
            }
            if log.iter().any(|e| matches!(e, Ev::Note { kind: "strict_pending", .. })) {
                r.class("inner_readiness_pending");
            }
            if log.iter().any(|e| matches!(e, Ev::Note { kind: "strict_cooling", .. })) {
                r.class("inner_not_ready_for_some_ms_after_a_call");
            }
            r.nontrivial = nontrivial;
            if nontrivial {
                r.class("readiness_two_calls_on_one_instance_or_reattempt");
            }
            if *layer as usize >= 13 {
                r.class("readiness_stack");
            }
            r.trace = json!({"target": *layer, "events": log.iter().take(40).collect::<Vec<_>>() });
        }
        C20Case::Listeners {
            layer,
            panics,
            requests,
            panic_style,
        } => {
            PANIC_STYLE.with(|c| c.set(*panic_style));
            if *panic_style > 0 {
                r.class("listener_panics_with_a_string_message");
            }
            let l = LISTENER_LAYERS[*layer as usize % LISTENER_LAYERS.len()];
            let none = vec![false; panics.len()];
            let (a, va) = sim::run_case(listener_run(l, None, requests));
            let (b, vb) = sim::run_case(listener_run(l, Some(&none), requests));
            let (c, vc) = sim::run_case(listener_run(l, Some(panics), requests));
            for m in va.into_iter().chain(vb).chain(vc) {
                r.fail(m);
            }
            if a.outcomes != b.outcomes || a.inner != b.inner {
                r.fail(format!(
                    "{}: registering {} quiet listeners changed the calls: outcomes {:?} vs {:?}, inner entries {:?} vs {:?}",
                    LAYERS[l], panics.len(), a.outcomes, b.outcomes, a.inner, b.inner
                ));
            }
            if a.outcomes != c.outcomes || a.inner != c.inner {
                r.fail(format!(
                    "{}: listeners {:?} panicking changed the calls: outcomes {:?} vs {:?}, inner entries {:?} vs {:?}",
                    LAYERS[l], panics, a.outcomes, c.outcomes, a.inner, c.inner
                ));
            }
            for j in 0..panics.len() {
                if !panics[j] && c.events[j] != b.events[j] {
                    r.fail(format!(
                        "{}: listener {j} received events {:?} when listeners {:?} panic, but {:?} when nobody panics",
                        LAYERS[l], c.events[j], panics, b.events[j]
                    ));
                }
                if panics[j] && c.events[j] != b.events[j] {
                    r.fail(format!(
                        "{}: panicking listener {j} was invoked for {:?}, quiet run {:?}",
                        LAYERS[l], c.events[j], b.events[j]
                    ));
                }
            }
            r.class("listeners");
            let some_panic = panics.iter().any(|&p| p);
            let some_survivor = panics.iter().any(|&p| !p);
            let got_events = b.events.iter().any(|e| !e.is_empty());
            r.nontrivial = some_panic && some_survivor && got_events;
            if r.nontrivial {
                r.class("listeners_panicking_and_surviving");
            }
            r.trace = json!({"layer": LAYERS[l], "events_per_listener_quiet_run": b.events, "outcomes": format!("{:?}", a.outcomes)});
        }
    }
    r
}

pub struct C20;
impl Property for C20 {
    type Case = C20Case;
    fn id(&self) -> &'static str {
        "C20"
    }
    fn strategy(&self, tier: Tier) -> BoxedStrategy<C20Case> {
        case_strategy(tier)
    }
    fn budget(&self, tier: Tier) -> (u32, usize) {
        match tier {
            Tier::Quick => (300_000, 8),
            Tier::Thorough => (8_000_000, 16),
        }
    }
    fn run(&self, case: &C20Case) -> Report {
        run_case(case)
    }
    fn rule(&self) -> String {
        "three generated sub-checks. Transparency: one of the 13 middleware in a non-triggering configuration or one of 6 stacks from the composition guide, generated request payload, ok / error outcome (never a retry/reconnect trigger code), latency 0-6 ms: exactly one inner entry with the identical request, identical serial or identical error payload back through the pass-through variants. Readiness: each middleware (configured so that retries, hedges and reconnects do happen) over a strict contract-checking service, tower Buffer or tower ConcurrencyLimit, generated pending polls and a failing instance, 1-6 requests on 3 reusable instances: zero contract violations, no readiness panic, an inner readiness error hit during the outer poll_ready comes out of it with its payload, every request gets a result of its own inner calls. Listeners: 9 layers with EventListeners, 1-4 listeners of which a generated subset panics, configurations that emit several event kinds: outcomes and inner log equal the run without listeners, every listener (panicking or not) is invoked for the same event sequence as in the run where nobody panics. Non-trivial: every transparency case; readiness cases with two calls on one instance or a re-attempt; listener cases with at least one panicking and one surviving listener and at least one event; distinct by hash of the case".into()
    }
    fn assumptions(&self) -> Vec<String> {
        vec![
            "stacks are a fixed menu (type-level composition); hedge surfaces an inner call error only as AllAttemptsFailed, accepted as its pass-through variant".into(),
            "through tower Buffer an inner readiness error loses its concrete type by Buffer's design; the payload check applies to the strict and ConcurrencyLimit inner services".into(),
        ]
    }
}
