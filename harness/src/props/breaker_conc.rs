//! C03 (an open breaker shields the inner service) and C09 (half-open admits at most the permitted
//! trial calls), on concurrent generated histories in the simulator.

use crate::gen;
use crate::props::breaker_model::{builder, CbConfig};
use crate::runner::{Property, Report, Tier};
use crate::sim::{self, Ev, Log, Outcome, Req, Sim, TaskState};
use crate::svc::{Lat, Out, Resp, SErr, Scripted, Step};
use futures::future::BoxFuture;
use proptest::prelude::*;
use serde::{Deserialize, Serialize};
use serde_json::json;
use std::collections::{HashMap, HashSet};
use tower::Service;
use tower_resilience_circuitbreaker::{
    CircuitBreaker, CircuitBreakerError, CircuitBreakerWithFallback, CircuitState,
};

#[derive(Clone, Debug, Serialize, Deserialize)]
pub struct CbCaller {
    pub at: u64,
    pub clone: u8,
    pub step: Step,
    pub cancel_after: Option<u64>,
    /// this many identical callers arrive in the same instant
    pub repeat: u8,
    /// the response future is obtained from call() at `at` but first polled this much later
    /// (a pre-built batch of futures driven later, a spawn on a busy executor)
    #[serde(default)]
    pub poll_delay: u64,
}

#[derive(Clone, Debug, Serialize, Deserialize)]
pub struct CbcCase {
    pub cfg: CbConfig,
    pub fallback: bool,
    pub clones: u8,
    pub callers: Vec<CbCaller>,
    pub force_open_at: Option<u64>,
    pub order: Vec<u8>,
    /// the fallback future needs this many ms (0 = resolves at once)
    #[serde(default)]
    pub fallback_ms: u64,
    /// after the history a long time passes (index into 31 s / 1 h / 400 days) and one more
    /// caller arrives: a breaker that is open with a longer (or unbounded) wait still rejects it
    #[serde(default)]
    pub late_probe: Option<u8>,
    /// callers (by index, mod 64) whose first poll starts on an exhausted cooperative budget
    #[serde(default)]
    pub starve_mask: u64,
    /// C09 only: instead of a simulated history, rounds of real OS threads racing for the trial
    /// slots of a half-open breaker (see crate::stress)
    #[serde(default)]
    pub stress: Option<CbStress>,
}

#[derive(Clone, Debug, Serialize, Deserialize)]
pub struct CbStress {
    pub permitted: usize,
    pub threads: usize,
    pub rounds: u32,
    pub fallback: bool,
    /// an on_call_permitted listener spends roughly this many loop iterations per event
    pub spin: u32,
}

fn stress_strategy(tier: Tier) -> BoxedStrategy<CbcCase> {
    let rounds = match tier {
        Tier::Quick => 300u32,
        Tier::Thorough => 3_000,
    };
    (1usize..=4, 3usize..=8, any::<bool>(), prop_oneof![Just(0u32), Just(500u32), Just(5_000u32), 0u32..=20_000])
        .prop_map(move |(permitted, threads, fallback, spin)| CbcCase {
            cfg: CbConfig {
                time_based: false,
                size: 10,
                window_ms: 50,
                thr20: 10,
                min: None,
                permitted,
                wait_ms: 0,
                slow: None,
                custom_classifier: false,
                idle_slow_rate10: None,
                wait_huge: 0,
                classifier_first: false,
                listeners: false,
                via_fallback: false,
                thr100: None,
            },
            fallback,
            clones: 1,
            callers: vec![],
            force_open_at: None,
            order: vec![],
            fallback_ms: 0,
            late_probe: None,
            starve_mask: 0,
            stress: Some(CbStress {
                permitted,
                threads: threads.max(permitted + 1),
                rounds,
                fallback,
                spin,
            }),
        })
        .boxed()
}

/// Rounds of real threads racing for the trial slots of one half-open breaker: each round a fresh
/// breaker (wait_duration_in_open zero) is forced open, then every thread makes one call through
/// its own clone at the same time; the wrapped service never answers, so every admitted call stays
/// a running trial. Oracle per round: at most permitted_calls_in_half_open calls reached the
/// wrapped service.
pub fn run_cb_stress(st: &CbStress) -> Report {
    use std::future::Future;
    use std::sync::atomic::{AtomicBool, AtomicUsize, Ordering};
    use std::sync::{Arc, Barrier, Mutex};
    let mut r = Report::default();
    let entered = Arc::new(AtomicUsize::new(0));
    let worst = Arc::new(AtomicUsize::new(0));
    let stop = Arc::new(AtomicBool::new(false));
    let slot: Arc<Mutex<Option<Handle>>> = Arc::new(Mutex::new(None));
    let barrier = Arc::new(Barrier::new(st.threads));
    let (permitted, rounds, fallback, spin) = (st.permitted, st.rounds, st.fallback, st.spin);
    let (e2, w2, s2, sl2, b2) = (entered.clone(), worst.clone(), stop.clone(), slot.clone(), barrier.clone());
    let spin_poll = |fut: &mut std::pin::Pin<Box<dyn Future<Output = ()> + Send>>| {
        let waker = futures::task::noop_waker();
        let mut cx = std::task::Context::from_waker(&waker);
        for _ in 0..1_000_000 {
            if fut.as_mut().poll(&mut cx).is_ready() {
                return true;
            }
            std::thread::yield_now();
        }
        false
    };
    let panicked = crate::stress::run_threads(st.threads, move |k| {
        let waker = futures::task::noop_waker();
        let mut cx = std::task::Context::from_waker(&waker);
        for _ in 0..rounds {
            // set before the last barrier of the round that saw a violation: everybody stops here
            if s2.load(Ordering::SeqCst) {
                break;
            }
            if k == 0 {
                // coordinator: a fresh breaker, forced open, its wait already over
                e2.store(0, Ordering::SeqCst);
                let e3 = e2.clone();
                let inner = Scripted::new(Log::new(), 1, move |_, _, _| {
                    e3.fetch_add(1, Ordering::SeqCst);
                    Step {
                        lat: Lat::Never,
                        out: Out::Ok,
                    }
                });
                let layer = tower_resilience_circuitbreaker::CircuitBreakerLayer::builder()
                    .name("stress")
                    .sliding_window_size(10)
                    .permitted_calls_in_half_open(permitted)
                    .wait_duration_in_open(std::time::Duration::ZERO)
                    .failure_classifier(ignore_code_7 as fn(&Result<Resp, SErr>) -> bool)
                    .on_call_permitted(move |_| crate::stress::spin(spin))
                    .build();
                let plain: Plain = layer.layer_fn(inner);
                let h = if fallback {
                    Handle::Fb(plain.with_fallback(move |req: Req| -> BoxFuture<'static, Result<Resp, SErr>> {
                        Box::pin(async move {
                            Ok(Resp {
                                serial: FB_BASE + req.id as u64,
                                req,
                            })
                        })
                    }))
                } else {
                    Handle::Plain(plain)
                };
                let h2 = h.clone();
                let mut f: std::pin::Pin<Box<dyn Future<Output = ()> + Send>> = Box::pin(async move { h2.force_open().await });
                let _ = spin_poll(&mut f);
                *sl2.lock().unwrap() = Some(h);
            }
            b2.wait();
            let mut mine = sl2.lock().unwrap().clone().expect("breaker published");
            b2.wait();
            let mut fut = mine.call(Req {
                id: k as u32,
                key: 0,
                tag: 0,
            });
            // poll until decided: a rejected call is ready; an admitted one sits in the wrapped
            // service for good (a few more polls do no harm); lock contention resolves within a few
            for _ in 0..60 {
                if fut.as_mut().poll(&mut cx).is_ready() {
                    break;
                }
                std::thread::yield_now();
            }
            b2.wait();
            if k == 0 {
                let n = e2.load(Ordering::SeqCst);
                w2.fetch_max(n, Ordering::SeqCst);
                if n > permitted {
                    s2.store(true, Ordering::SeqCst);
                }
            }
            drop(fut);
            b2.wait();
        }
    });
    let w = worst.load(Ordering::SeqCst);
    if w > st.permitted {
        r.fail(format!(
            "{} threads calling a half-open breaker ({}) at the same time, {} rounds: in one round {w} calls reached the wrapped service, permitted_calls_in_half_open = {}",
            st.threads,
            if st.fallback { "with fallback" } else { "plain" },
            st.rounds,
            st.permitted
        ));
    }
    if let Some(p) = panicked {
        r.fail(format!("a circuit breaker call panicked on a stress thread: {p}"));
    }
    r.nontrivial = w >= 1;
    r.class("real_thread_stress");
    r.trace = json!({"most_trials_in_a_round": w, "stress": st});
    r
}

fn small_config() -> BoxedStrategy<CbConfig> {
    (
        any::<bool>(),
        1usize..=4,
        30u64..=100,
        prop_oneof![Just(1u8), Just(10u8), Just(20u8), 1u8..=20],
        prop_oneof![1 => Just(None), 2 => (1usize..=3).prop_map(Some)],
        1usize..=4,
        prop_oneof![Just(20u64), Just(30u64), 20u64..=100],
        prop_oneof![3 => Just(None), 1 => (5u64..=20, prop_oneof![Just(5u8), Just(10u8)]).prop_map(Some)],
        (prop_oneof![12 => Just(0u8), 1 => 1u8..=3], prop::bool::weighted(0.3)),
    )
        .prop_map(
            |(time_based, size, window_ms, thr20, min, permitted, wait_ms, slow, (wait_huge, listeners))| CbConfig {
                time_based,
                size,
                window_ms,
                thr20,
                min,
                permitted,
                wait_ms,
                slow,
                custom_classifier: false,
                idle_slow_rate10: None,
                wait_huge,
                classifier_first: false,
                listeners,
                via_fallback: false,
                thr100: None,
            },
        )
        .boxed()
}

fn case_strategy(tier: Tier) -> BoxedStrategy<CbcCase> {
    let callers_hi = match tier {
        Tier::Quick => 10usize,
        Tier::Thorough => 20,
    };
    let step = (
        prop_oneof![
            2 => Just(Lat::Ms(0)),
            4 => (1u64..=8).prop_map(|k| Lat::Ms(k * 10)),
            2 => (1u64..=90).prop_map(Lat::Ms),
            1 => Just(Lat::Never),
            // the trial's inner future uses up the cooperative budget in the poll it completes in:
            // the breaker's next lock().await then yields once
            1 => (0u64..=8).prop_map(|k| Lat::MsDrain(k * 10)),
        ],
        prop_oneof![
            4 => Just(Out::Ok),
            5 => Just(Out::Err(3)),
            // an error the classifier does not count as a failure
            1 => Just(Out::Err(7)),
            // the classifier itself panics on this one (a bug in user code run under the
            // circuit's lock): the call is lost, the breaker is as before
            1 => Just(Out::Err(8)),
            1 => Just(Out::Panic),
        ],
    )
        .prop_map(|(lat, out)| Step { lat, out });
    let caller = (
        gen::instant(220),
        0u8..4,
        step,
        prop_oneof![
            6 => Just(None),
            1 => (1u64..=6).prop_map(|k| Some(k * 10)),
            1 => (1u64..=60).prop_map(Some),
        ],
        prop_oneof![4 => Just(1u8), 1 => Just(2u8), 2 => 3u8..=6],
        prop_oneof![
            6 => Just(0u64),
            1 => (1u64..=12).prop_map(|k| k * 10),
            1 => 1u64..=120,
        ],
    )
        .prop_map(|(at, clone, step, cancel_after, repeat, poll_delay)| CbCaller {
            at,
            clone,
            step,
            cancel_after,
            repeat,
            poll_delay,
        });
    let general = (
        small_config(),
        any::<bool>(),
        1u8..=4,
        prop::collection::vec(caller, 2..=callers_hi),
        prop_oneof![3 => Just(None), 1 => gen::instant(200).prop_map(Some)],
        prop::collection::vec(any::<u8>(), 0..=48),
        (
            prop_oneof![3 => Just(0u64), 1 => 1u64..=25, 1 => Just(10u64)],
            prop_oneof![2 => Just(None), 1 => (0u8..3).prop_map(Some)],
            prop_oneof![4 => Just(0u64), 1 => (0u64..64).prop_map(|k| 1 << k), 1 => any::<u64>()],
        ),
    )
        .prop_map(
            |(cfg, fallback, clones, callers, force_open_at, order, (fallback_ms, late_probe, starve_mask))| CbcCase {
                cfg,
                fallback,
                clones,
                callers,
                force_open_at,
                order,
                fallback_ms,
                late_probe,
                starve_mask,
                stress: None,
            },
        );
    // a large permitted_calls_in_half_open and more slow trial callers than that at once
    let crowd = (
        prop_oneof![Just(64usize), Just(65usize), Just(70usize), 60usize..=80],
        any::<bool>(),
        any::<bool>(),
        85u8..=110,
        prop_oneof![Just(40u64), 20u64..=60],
        prop::collection::vec(any::<u8>(), 0..=8),
    )
        .prop_map(|(permitted, time_based, fallback, crowd, lat, order)| CbcCase {
            cfg: CbConfig {
                time_based,
                size: 2,
                window_ms: 100,
                thr20: 10,
                min: Some(2),
                permitted,
                wait_ms: 20,
                slow: None,
                custom_classifier: false,
                idle_slow_rate10: None,
                wait_huge: 0,
                classifier_first: false,
                listeners: false,
                via_fallback: false,
                thr100: None,
            },
            fallback,
            clones: 3,
            callers: vec![
                CbCaller {
                    at: 0,
                    clone: 0,
                    step: Step::err(0, 3),
                    cancel_after: None,
                    repeat: 2,
                    poll_delay: 0,
                },
                CbCaller {
                    at: 30,
                    clone: 1,
                    step: Step::ok(lat),
                    cancel_after: None,
                    repeat: crowd,
                    poll_delay: 0,
                },
            ],
            force_open_at: None,
            order,
            fallback_ms: 0,
            late_probe: None,
            starve_mask: 0,
            stress: None,
        });
    prop_oneof![40 => general, 1 => crowd].boxed()
}

const FB_BASE: u64 = 5_000_000;

/// The concurrent cases always run with a custom failure classifier: like the default one, except
/// that an error with code 7 is *not* a failure (an "ignored" error: it is recorded as a success).
type Cls = tower_resilience_circuitbreaker::FnClassifier<fn(&Result<Resp, SErr>) -> bool>;
fn ignore_code_7(r: &Result<Resp, SErr>) -> bool {
    if matches!(r, Err(e) if e.code == 8) {
        std::panic::panic_any(sim::ScriptedPanic);
    }
    matches!(r, Err(e) if e.code != 7)
}
type Fb = CircuitBreakerWithFallback<Scripted, Cls, Req, Resp, SErr>;
type Plain = CircuitBreaker<Scripted, Cls>;

#[derive(Clone)]
enum Handle {
    Plain(Plain),
    Fb(Fb),
}

impl Handle {
    fn call(&mut self, req: Req) -> BoxFuture<'static, Result<Resp, CircuitBreakerError<SErr>>> {
        match self {
            Handle::Plain(s) => {
                let _ = s.poll_ready(&mut std::task::Context::from_waker(
                    futures::task::noop_waker_ref(),
                ));
                Box::pin(s.call(req)) as BoxFuture<'static, _>
            }
            Handle::Fb(s) => {
                let _ = s.poll_ready(&mut std::task::Context::from_waker(
                    futures::task::noop_waker_ref(),
                ));
                Box::pin(s.call(req)) as BoxFuture<'static, _>
            }
        }
    }
    async fn force_open(&self) {
        match self {
            Handle::Plain(s) => s.force_open().await,
            Handle::Fb(s) => s.force_open().await,
        }
    }
    fn state_sync(&self) -> CircuitState {
        match self {
            Handle::Plain(s) => s.state_sync(),
            Handle::Fb(s) => s.state_sync(),
        }
    }
}

fn map_outcome(r: Result<Resp, CircuitBreakerError<SErr>>) -> Outcome {
    match r {
        Ok(resp) => Outcome::Ok {
            serial: resp.serial,
            req: resp.req,
        },
        Err(CircuitBreakerError::Inner(e)) => Outcome::Inner {
            code: e.code,
            serial: e.serial,
        },
        Err(CircuitBreakerError::OpenCircuit) => Outcome::Layer("OpenCircuit".into()),
    }
}

#[derive(Default)]
pub struct Verdict {
    pub c03: Vec<String>,
    pub c09: Vec<String>,
    pub classes: Vec<&'static str>,
    pub nontrivial_c03: bool,
    pub nontrivial_c09: bool,
    pub log: Vec<Ev>,
}

const CLOSED: i64 = 0;
const OPEN: i64 = 1;
const HALF: i64 = 2;

fn st_code(s: CircuitState) -> i64 {
    match s {
        CircuitState::Closed => CLOSED,
        CircuitState::Open => OPEN,
        CircuitState::HalfOpen => HALF,
    }
}

pub fn run_conc(case: &CbcCase) -> Verdict {
    sim::run_case(interp(case))
}

async fn interp(case: &CbcCase) -> Verdict {
    let mut v = Verdict::default();
    let cfg = &case.cfg;
    let log = Log::new();
    let mut sim = Sim::new(log.clone(), case.order.clone());

    // expand repeats
    struct C {
        at: u64,
        clone: u8,
        step: Step,
        cancel_after: Option<u64>,
        poll_delay: u64,
    }
    let mut callers: Vec<C> = vec![];
    for c in &case.callers {
        for _ in 0..c.repeat.max(1) {
            callers.push(C {
                at: c.at,
                clone: c.clone,
                step: c.step,
                cancel_after: c.cancel_after,
                poll_delay: c.poll_delay,
            });
        }
    }
    let n = callers.len();
    let mut table: HashMap<u32, Vec<Step>> = HashMap::new();
    for (i, c) in callers.iter().enumerate() {
        table.insert(i as u32, vec![c.step]);
    }
    let inner = Scripted::from_table(log.clone(), table, Step::ok(0));
    let l2 = log.clone();
    let layer = builder(cfg)
        .failure_classifier(ignore_code_7 as fn(&Result<Resp, SErr>) -> bool)
        .on_state_transition(move |from, to| {
            l2.note("transition", st_code(from), st_code(to));
        })
        .build();
    let plain = layer.layer_fn(inner.clone());
    // a handle taken BEFORE the breaker is converted with with_fallback(): it shares the circuit
    // with the fallback service and all its clones (a control handle kept for force_open, a
    // health trigger)
    let control = plain.clone();
    let base = if case.fallback {
        let fb_ms = case.fallback_ms;
        Handle::Fb(plain.with_fallback(move |req: Req| -> BoxFuture<'static, Result<Resp, SErr>> {
            Box::pin(async move {
                if fb_ms > 0 {
                    // a fallback that itself has to wait (secondary backend, cache lookup)
                    tokio::time::sleep(std::time::Duration::from_millis(fb_ms)).await;
                }
                Ok(Resp {
                    serial: FB_BASE + req.id as u64,
                    req,
                })
            })
        }))
    } else {
        Handle::Plain(plain)
    };
    let mut clones: Vec<Handle> = (0..case.clones).map(|_| base.clone()).collect();
    // with a fallback and at least two handles, the last one is the pre-conversion plain handle
    let plain_handle: Option<usize> = (case.fallback && case.clones >= 2).then(|| case.clones as usize - 1);
    if let Some(k) = plain_handle {
        clones[k] = Handle::Plain(control.clone());
    }
    let uses_fb = |clone: u8| case.fallback && Some((clone % case.clones) as usize) != plain_handle;

    let horizon = callers
        .iter()
        .map(|c| c.at + c.cancel_after.unwrap_or(0).max(c.poll_delay))
        .max()
        .unwrap_or(0)
        .max(case.force_open_at.unwrap_or(0))
        + 160
        + case.fallback_ms;
    let mut task: Vec<Option<usize>> = vec![None; n];
    let mut cancelled_at: Vec<Option<u64>> = vec![None; n];
    // futures obtained from call() but not yet handed to the executor
    let mut held: Vec<Option<BoxFuture<'static, Result<Resp, CircuitBreakerError<SErr>>>>> =
        (0..n).map(|_| None).collect();
    let mut saw_delayed_poll = false;

    for t in 0..=horizon {
        if t > 0 {
            sim.begin_instant().await;
        }
        if case.force_open_at == Some(t) {
            // through the simulator like every caller: if the circuit's lock is held by somebody's
            // pending future, this waits with it instead of blocking the whole run
            let h = Handle::Plain(control.clone());
            let lg = log.clone();
            sim.spawn(async move {
                h.force_open().await;
                lg.note("force_open", 0, 0);
            });
        }
        for i in 0..n {
            if callers[i].at == t {
                let req = Req {
                    id: i as u32,
                    key: 0,
                    tag: 0xC000 + i as u64,
                };
                held[i] = Some(clones[(callers[i].clone % case.clones) as usize].call(req));
            }
        }
        for i in 0..n {
            // cancelled before the first poll: the future is dropped without ever being polled
            if let Some(d) = callers[i].cancel_after {
                if callers[i].at + d == t && held[i].is_some() && callers[i].poll_delay > d {
                    held[i] = None;
                    cancelled_at[i] = Some(t);
                }
            }
            if callers[i].at + callers[i].poll_delay == t {
                if let Some(fut) = held[i].take() {
                    if callers[i].poll_delay > 0 {
                        saw_delayed_poll = true;
                    }
                    let lg = log.clone();
                    let starved = (case.starve_mask >> (i % 64)) & 1 == 1;
                    let wrapped = async move {
                        // a starved caller's admission is decided at a later poll of this instant,
                        // when other callers may already have come and gone: the per-caller rules
                        // tied to "the state at its first poll" do not apply to it (the rules over
                        // the whole history do)
                        if !starved {
                            lg.note("first_poll", i as i64, 0);
                        }
                        fut.await
                    };
                    let tk = sim.spawn_call(wrapped, map_outcome);
                    if starved {
                        sim.starve_first_poll(tk);
                    }
                    task[i] = Some(tk);
                }
            }
        }
        for i in 0..n {
            if let (Some(d), Some(tk)) = (callers[i].cancel_after, task[i]) {
                if callers[i].at + d == t && sim.state(tk) == TaskState::Live {
                    cancelled_at[i] = Some(t);
                    sim.cancel(tk);
                }
            }
        }
        sim.settle().await;
        // the lock-free view must agree with the last observed transition
        let last_to = log.with(|l| {
            l.iter().rev().find_map(|e| match e {
                Ev::Note {
                    kind: "transition",
                    b,
                    ..
                } => Some(*b),
                _ => None,
            })
        });
        let sync = st_code(base.state_sync());
        if sync != last_to.unwrap_or(CLOSED) {
            v.c03.push(format!(
                "t={t}: state_sync() reports state {sync} but the last transition event announced {:?}",
                last_to
            ));
            break;
        }
    }

    if let (Some(j), true) = (case.late_probe, v.c03.is_empty()) {
        let jump = [31_000u64, 3_600_000, 400 * 86_400_000][j as usize % 3];
        crate::vclock::advance_ms(jump - 1);
        sim.begin_instant().await;
        let req = Req {
            id: n as u32,
            key: 0,
            tag: 0xC000 + n as u64,
        };
        let fut = clones[0].call(req);
        let lg = log.clone();
        let wrapped = async move {
            lg.note("first_poll", n as i64, 0);
            fut.await
        };
        let _ = sim.spawn_call(wrapped, map_outcome);
        sim.settle().await;
        for _ in 0..(12 + case.fallback_ms) {
            sim.tick().await;
        }
    }

    // ------------------------------------------------------------ oracles over the history
    let snap = log.snapshot();
    let wait2 = if cfg.wait_huge > 0 { u64::MAX } else { 2 * cfg.wait_ms + 1 };
    let permitted = cfg.permitted;
    let mut cur = CLOSED;
    let mut opened_at = 0u64;
    // instant of the most recent observed transition into Open: the shield lasts for
    // wait_duration_in_open from then on, whatever the breaker claims in between (the generated
    // cases contain no force_closed / reset)
    let mut last_open: Option<u64> = None;
    let mut period_serials: HashSet<u64> = HashSet::new();
    let mut entries = 0usize;
    let mut abandoned = 0usize;
    // caller -> (state, t, opened_at, live trials) at its first poll
    let mut at_first_poll: HashMap<usize, (i64, u64, u64, usize)> = HashMap::new();
    let mut saw_open_poll_with_running = false;
    let mut saw_over_permitted = false;
    let mut half_open_periods = 0usize;
    let mut running: HashSet<u64> = HashSet::new();
    let classifier_panics: HashSet<u64> = snap
        .iter()
        .filter_map(|e| match e {
            Ev::Enter { serial, req, .. }
                if (req.id as usize) < n && matches!(callers[req.id as usize].step.out, Out::Err(8)) =>
            {
                Some(*serial)
            }
            _ => None,
        })
        .collect();
    for e in &snap {
        match e {
            Ev::Note {
                kind: "transition",
                a,
                b,
                t,
            } => {
                if *a != cur {
                    v.c03.push(format!(
                        "t={t}: transition event {a}->{b} but the previous observed state was {cur}"
                    ));
                }
                if *a == OPEN && *b == HALF && 2 * (t - opened_at) < wait2 {
                    v.c03.push(format!(
                        "t={t}: breaker left Open after {} ms, before wait_duration_in_open ({}.5 ms) elapsed (opened at t={opened_at})",
                        t - opened_at,
                        cfg.wait_ms
                    ));
                }
                if *a == OPEN && *b == CLOSED && 2 * (t - opened_at) < wait2 {
                    v.c03.push(format!(
                        "t={t}: breaker went from Open straight to Closed {} ms after opening, before wait_duration_in_open ({}.5 ms) elapsed and without a manual override",
                        t - opened_at,
                        cfg.wait_ms
                    ));
                }
                cur = *b;
                if *b == OPEN {
                    opened_at = *t;
                    last_open = Some(*t);
                }
                period_serials.clear();
                entries = 0;
                abandoned = 0;
                if *b == HALF {
                    half_open_periods += 1;
                }
            }
            Ev::Note {
                kind: "first_poll",
                a,
                t,
                ..
            } => {
                let live = entries - abandoned;
                at_first_poll.insert(*a as usize, (cur, *t, opened_at, live));
                if cur == OPEN && !running.is_empty() {
                    saw_open_poll_with_running = true;
                }
                if cur == HALF && live >= permitted && period_serials.iter().any(|s| running.contains(s)) {
                    saw_over_permitted = true;
                }
            }
            Ev::Enter { t, serial, req, .. } => {
                running.insert(*serial);
                if cur == OPEN {
                    v.c03.push(format!(
                        "t={t}: request {} reached the inner service while the breaker was observed open (opened at t={opened_at}, wait {}.5 ms)",
                        req.id, cfg.wait_ms
                    ));
                } else if let Some(op) = last_open {
                    if 2 * (t - op) < wait2 {
                        v.c03.push(format!(
                            "t={t}: request {} reached the inner service only {} ms after the breaker was observed open (t={op}); wait_duration_in_open is {}.5 ms",
                            req.id,
                            t - op,
                            cfg.wait_ms
                        ));
                    }
                }
                if cur == HALF {
                    entries += 1;
                    period_serials.insert(*serial);
                    let live = entries - abandoned;
                    if live > permitted {
                        v.c09.push(format!(
                            "t={t}: request {} is trial call number {live} (not counting abandoned ones) in one half-open period, permitted_calls_in_half_open={permitted}",
                            req.id
                        ));
                    }
                }
            }
            Ev::Done { serial, .. } => {
                running.remove(serial);
                // a call whose classification panics is recorded neither as success nor as
                // failure: its trial slot is simply given back
                if classifier_panics.contains(serial) && period_serials.remove(serial) {
                    abandoned += 1;
                }
            }
            Ev::Dropped { serial, .. } | Ev::Panicked { serial, .. } => {
                running.remove(serial);
                if period_serials.remove(serial) {
                    abandoned += 1;
                }
            }
            _ => {}
        }
    }
    // per-caller checks
    for i in 0..n {
        let Some(tk) = task[i] else { continue };
        let resolve = snap.iter().find_map(|e| match e {
            Ev::Resolve { t, task, out } if *task == tk => Some((*t, out.clone())),
            _ => None,
        });
        let enter = snap.iter().find_map(|e| match e {
            Ev::Enter { t, serial, req, .. } if req.id == i as u32 => Some((*t, *serial)),
            _ => None,
        });
        let enters = snap
            .iter()
            .filter(|e| matches!(e, Ev::Enter { req, .. } if req.id == i as u32))
            .count();
        if enters > 1 {
            v.c03
                .push(format!("caller {i} reached the inner service {enters} times"));
        }
        // a rejected caller is answered at once: by the error, or by its fallback future, which
        // takes exactly `fallback_ms` (nobody else's fallback may hold it up)
        let fb = uses_fb(callers[i].clone);
        let fb_wait = if fb { case.fallback_ms } else { 0 };
        let rejected_shape = |out: &Outcome| -> bool {
            match out {
                Outcome::Layer(nm) => !fb && nm == "OpenCircuit",
                Outcome::Ok { serial, req } => {
                    fb && *serial == FB_BASE + i as u64 && req.id == i as u32
                }
                _ => false,
            }
        };
        if let Some(&(st, t, op_at, live)) = at_first_poll.get(&i) {
            let must_reject_open = st == OPEN && 2 * (t - op_at) < wait2;
            let must_reject_half = st == HALF && live >= permitted;
            if must_reject_open || must_reject_half {
                let why = if must_reject_open {
                    format!("the breaker was open since t={op_at}")
                } else {
                    format!("{live} trial calls were already admitted in this half-open period (permitted {permitted})")
                };
                let dest = if must_reject_open { &mut v.c03 } else { &mut v.c09 };
                if enter.is_some() {
                    dest.push(format!(
                        "caller {i} first polled at t={t} while {why}, yet it reached the inner service"
                    ));
                }
                match &resolve {
                    Some((tr, out)) if *tr == t + fb_wait && rejected_shape(out) => {}
                    other => {
                        let cancelled_meanwhile =
                            cancelled_at[i].map_or(false, |c| c >= t && c <= t + fb_wait);
                        if !cancelled_meanwhile {
                            dest.push(format!(
                                "caller {i} first polled at t={t} while {why}: expected an immediate {} but got {:?}",
                                if fb { "fallback response for its own request" } else { "OpenCircuit error" },
                                other
                            ));
                        }
                    }
                }
            }
        }
        // admitted calls return their own inner result
        if let (Some((te, serial)), Some((_, out))) = (enter, &resolve) {
            let own = match out {
                Outcome::Ok { serial: s, req } => *s == serial && req.id == i as u32,
                Outcome::Inner { serial: s, .. } => *s == serial,
                _ => false,
            };
            if !own {
                v.c03.push(format!(
                    "caller {i} was admitted at t={te} (inner call {serial}) but resolved with {out:?}"
                ));
            }
            // "calls admitted before it opened may still complete": an admitted call resolves in the
            // instant its inner call completes, whatever rejected callers are doing meanwhile
            let done = snap.iter().find_map(|e| match e {
                Ev::Done { t, serial: s, .. } if *s == serial => Some(*t),
                _ => None,
            });
            if let (Some(dt), Some((rt, _))) = (done, &resolve) {
                if rt != &dt {
                    v.c03.push(format!(
                        "caller {i}: its inner call {serial} completed at t={dt} but the call resolved only at t={rt}"
                    ));
                }
            }
        }
        if let (None, Some((tr, out))) = (enter, &resolve) {
            if !rejected_shape(out) {
                v.c03.push(format!(
                    "caller {i} never reached the inner service but resolved at t={tr} with {out:?}"
                ));
            }
        }
    }
    for (task, msg) in &sim.unexpected_panics {
        v.c03.push(format!("unexpected panic in task {task}: {msg}"));
    }

    if saw_open_poll_with_running {
        v.classes.push("polled_while_open_with_admitted_call_running");
    }
    if snap.iter().any(|e| matches!(e, Ev::Note { kind: "transition", b, .. } if *b == OPEN)) {
        v.classes.push("opened");
    }
    if half_open_periods > 0 {
        v.classes.push("half_open_period");
    }
    if half_open_periods > 1 {
        v.classes.push("several_half_open_periods");
    }
    if saw_over_permitted {
        v.classes.push("more_callers_than_permitted_with_trial_running");
    }
    if case.fallback {
        v.classes.push("with_fallback");
    }
    if cfg.listeners {
        v.classes.push("event_listeners_registered");
    }
    if case.late_probe.is_some() {
        v.classes.push("caller_after_a_long_quiet_time");
    }
    if case.starve_mask & ((1u64 << n.min(63)) - 1) != 0 {
        v.classes.push("first_poll_with_exhausted_cooperative_budget");
    }
    if cfg.wait_huge > 0 {
        v.classes.push("never_auto_recover_wait");
    }
    if cancelled_at.iter().any(|c| c.is_some()) {
        v.classes.push("cancellation");
    }
    if saw_delayed_poll {
        v.classes.push("first_poll_later_than_call");
    }
    v.nontrivial_c03 = saw_open_poll_with_running;
    v.nontrivial_c09 = saw_over_permitted;
    v.log = snap;
    v
}

fn trace(v: &Verdict) -> serde_json::Value {
    let evs: Vec<_> = v.log.iter().take(80).collect();
    json!({ "events": evs, "events_total": v.log.len() })
}

macro_rules! conc_prop {
    ($name:ident, $id:expr, $field:ident, $nt:ident, $rule:expr) => {
        pub struct $name;
        impl Property for $name {
            type Case = CbcCase;
            fn id(&self) -> &'static str {
                $id
            }
            fn strategy(&self, tier: Tier) -> BoxedStrategy<CbcCase> {
                if $id == "C09" {
                    prop_oneof![1500 => case_strategy(tier), 1 => stress_strategy(tier)].boxed()
                } else {
                    case_strategy(tier)
                }
            }
            fn budget(&self, tier: Tier) -> (u32, usize) {
                match tier {
                    Tier::Quick => (150_000, 8),
                    Tier::Thorough => (4_000_000, 16),
                }
            }
            fn run(&self, case: &CbcCase) -> Report {
                if let Some(st) = &case.stress {
                    return run_cb_stress(st);
                }
                let v = run_conc(case);
                let mut r = Report::default();
                if let Some(m) = v.$field.first() {
                    r.fail(m.clone());
                }
                r.nontrivial = v.$nt;
                r.classes = v.classes.clone();
                r.trace = trace(&v);
                r
            }
            fn rule(&self) -> String {
                $rule.into()
            }
            fn assumptions(&self) -> Vec<String> {
                vec![
                    "observation of the breaker state = on_state_transition events in log order, cross-checked with state_sync() at every quiescent instant".into(),
                    "wait/window/slow thresholds are k ms + 0.5 ms (no ties); single-threaded poll orders".into(),
                ]
            }
        }
    };
}

conc_prop!(
    C03,
    "C03",
    c03,
    nontrivial_c03,
    "proptest-generated concurrent histories: small breaker configs (both window types, wait 20-100 ms + 0.5), with/without fallback, 2-10/20 caller groups (1-6 identical callers per instant) on 1-4 clones with scripted latency/outcome incl. panic and never, cancellations, optional force_open, poll-order choices. Oracle in log order: no inner entry while the last observed transition is ->Open; Open->HalfOpen only >= wait after opening; a caller first polled while open (before the wait) resolves in that instant with OpenCircuit / its own fallback value and never enters; admitted callers get their own inner result.Also generated: event listeners, starved first polls, and one more caller after a long quiet time (31 s / 1 h / 400 days). Non-trivial: a caller is first polled while the breaker is open and another, earlier admitted call is still running; distinct by hash of the case"
);
conc_prop!(
    C09,
    "C09",
    c09,
    nontrivial_c09,
    "same generated concurrent histories as C03 (about one case in 1500 is instead a real-thread stress: 300/3000 rounds of 3-8 OS threads calling a freshly opened breaker with an elapsed wait at the same time, the wrapped service never answering: at most permitted calls reach it per round). Oracle in log order: within one half-open period (from the observed transition into HalfOpen to the next transition) the inner entries, not counting trials abandoned by drop or panic, never exceed permitted_calls_in_half_open (the call that moved Open->HalfOpen counts); a caller first polled when that many trials are already admitted is rejected in that instant (OpenCircuit / fallback) and never enters. Non-trivial: a caller is polled in a half-open period in which the permitted number of trials is already admitted with at least one still in flight; distinct by hash of the case"
);
