//! C06: every call through the time limiter resolves by its deadline; the inner call is dropped at
//! the deadline in cancel mode and keeps running to completion in non-cancel mode.

use crate::runner::{Property, Report, Tier};
use crate::sim::{self, Ev, Log, Outcome, Req, Sim};
use crate::svc::{Lat, Out, Resp, SErr, Scripted, Step};
use futures::future::BoxFuture;
use proptest::prelude::*;
use serde::{Deserialize, Serialize};
use serde_json::json;
use std::collections::HashMap;
use std::time::Duration;
use tower::{Layer, Service};
use tower_resilience_timelimiter::{TimeLimiterError, TimeLimiterLayer};

#[derive(Clone, Copy, Debug, Serialize, Deserialize, PartialEq)]
pub enum LatRel {
    Zero,
    /// timeout + delta (delta in -1..=1), floored at zero
    NearDeadline(i8),
    Below(u64),
    Above(u64),
    Never,
}

#[derive(Clone, Debug, Serialize, Deserialize)]
pub struct TlCall {
    pub at: u64,
    /// per-request timeout (used when `per_request`)
    pub timeout: u64,
    pub lat: LatRel,
    pub ok: bool,
    /// the inner call is busy (drains the cooperative budget on every poll) instead of idle
    #[serde(default)]
    pub busy: bool,
    /// poll_ready is driven on a clone of the service this many ms before the call is made on it
    /// (a pre-warmed or pooled ready service that sits idle until the request comes)
    #[serde(default)]
    pub ready_before: u64,
    /// the caller gives up (drops the response future) this long after the call, if it has not
    /// resolved by then
    #[serde(default)]
    pub abandon_after: Option<u64>,
    /// after its first poll the caller's task is busy elsewhere and does not poll the response
    /// future again until this many ms after the call (timers and other tasks go on meanwhile;
    /// the inner call's work is done by a task of its own, so its result is there on time)
    #[serde(default)]
    pub frozen_for: Option<u64>,
}

#[derive(Clone, Debug, Serialize, Deserialize)]
pub struct TlCase {
    pub timeout: u64,
    pub per_request: bool,
    pub cancel: bool,
    /// drop the service (and every clone the harness holds) right after the last call was issued
    #[serde(default)]
    pub drop_service: bool,
    /// fixed timeout of Duration::MAX ("no limit"): finite inner calls must still come through
    #[serde(default)]
    pub huge_timeout: bool,
    /// call cancel_running_future() on the builder before the timeout setter instead of after it
    #[serde(default)]
    pub cancel_first: bool,
    /// the callers keep the resolved response future alive for this long before dropping it
    #[serde(default)]
    pub hold: Option<u64>,
    /// every kind of event listener is registered on the layer
    #[serde(default)]
    pub listeners: bool,
    pub calls: Vec<TlCall>,
    pub order: Vec<u8>,
}

fn timeout_strategy() -> BoxedStrategy<u64> {
    prop_oneof![
        1 => Just(0u64),
        1 => Just(1u64),
        3 => (1u64..=10).prop_map(|k| k * 10),
        3 => 0u64..=300,
    ]
    .boxed()
}

fn case_strategy(_tier: Tier) -> BoxedStrategy<TlCase> {
    let lat = prop_oneof![
        1 => Just(LatRel::Zero),
        4 => (-1i8..=1).prop_map(LatRel::NearDeadline),
        2 => (0u64..=300).prop_map(LatRel::Below),
        2 => (1u64..=100).prop_map(LatRel::Above),
        1 => Just(LatRel::Never),
    ];
    let call = (
        prop_oneof![2 => Just(0u64), 1 => 0u64..=20, 1 => 20u64..=60],
        timeout_strategy(),
        lat,
        prop::bool::weighted(0.6),
        prop::bool::weighted(0.25),
        prop_oneof![3 => Just(0u64), 1 => 1u64..=40, 1 => (1u64..=30).prop_map(|k| k * 10)],
        prop_oneof![5 => Just(None), 1 => (0u64..=60).prop_map(Some), 1 => (1u64..=10).prop_map(|k| Some(k * 10 - 1))],
        prop_oneof![5 => Just(None), 1 => (1u64..=400).prop_map(Some), 1 => (1u64..=12).prop_map(|k| Some(k * 10 + 1))],
    )
        .prop_map(|(at, timeout, lat, ok, busy, ready_before, abandon_after, frozen_for)| TlCall {
            at,
            timeout,
            lat,
            ok,
            busy,
            ready_before,
            // one special situation per call
            abandon_after: if frozen_for.is_some() { None } else { abandon_after },
            frozen_for,
        });
    let general = (
        timeout_strategy(),
        any::<bool>(),
        any::<bool>(),
        any::<bool>(),
        prop::collection::vec(call, 1..=5),
        prop::collection::vec(any::<u8>(), 0..=24),
        (
            prop::bool::weighted(0.06),
            any::<bool>(),
            prop_oneof![2 => Just(None), 1 => (1u64..=40).prop_map(Some)],
            prop::bool::weighted(0.3),
        ),
    )
        .prop_map(|(timeout, per_request, cancel, drop_service, calls, order, (huge_timeout, cancel_first, hold, listeners))| TlCase {
            timeout,
            per_request: per_request && !huge_timeout,
            cancel,
            drop_service,
            huge_timeout,
            cancel_first,
            hold,
            listeners,
            calls,
            order,
        });
    // a crowd: 66-90 slow calls within a few ms (their inner calls outlive the timeout by far or
    // never end) and a quick one after them, in either mode
    let crowd = (
        any::<bool>(),
        66usize..=90,
        prop_oneof![Just(10u64), 5u64..=30],
        prop_oneof![1 => Just(LatRel::Never), 2 => (50u64..=100).prop_map(LatRel::Above)],
        0u64..=3,
        prop::collection::vec(any::<u8>(), 0..=8),
    )
        .prop_map(|(cancel, n, timeout, slow, spread, order)| {
            let mut calls: Vec<TlCall> = (0..n)
                .map(|i| TlCall {
                    at: if spread == 0 { 0 } else { i as u64 % (spread + 1) },
                    timeout,
                    lat: slow.clone(),
                    ok: true,
                    busy: false,
                    ready_before: 0,
                    abandon_after: None,
                    frozen_for: None,
                })
                .collect();
            calls.push(TlCall {
                at: timeout + 5,
                timeout,
                lat: LatRel::Below(1),
                ok: true,
                busy: false,
                ready_before: 0,
                abandon_after: None,
                frozen_for: None,
            });
            TlCase {
                timeout,
                per_request: false,
                cancel,
                drop_service: false,
                huge_timeout: false,
                cancel_first: false,
                hold: None,
                listeners: false,
                calls,
                order,
            }
        });
    prop_oneof![150 => general, 1 => crowd].boxed()
}

fn map_outcome(r: Result<Resp, TimeLimiterError<SErr>>) -> Outcome {
    match r {
        Ok(resp) => Outcome::Ok {
            serial: resp.serial,
            req: resp.req,
        },
        Err(TimeLimiterError::Inner(e)) => Outcome::Inner {
            code: e.code,
            serial: e.serial,
        },
        Err(TimeLimiterError::Timeout) => Outcome::Layer("Timeout".into()),
    }
}

pub struct Verdict {
    pub violations: Vec<String>,
    pub classes: Vec<&'static str>,
    pub nontrivial: bool,
    pub log: Vec<Ev>,
}

fn latency_of(c: &TlCall, timeout: u64) -> Option<u64> {
    match c.lat {
        LatRel::Zero => Some(0),
        LatRel::NearDeadline(d) => Some((timeout as i64 + d as i64).max(0) as u64),
        LatRel::Below(x) => Some(if timeout == 0 { 0 } else { x % timeout }),
        LatRel::Above(x) => Some(timeout + x),
        LatRel::Never => None,
    }
}

pub fn run_tl(case: &TlCase) -> Verdict {
    sim::run_case(interp(case))
}

type Fut = BoxFuture<'static, Result<Resp, TimeLimiterError<SErr>>>;

async fn interp(case: &TlCase) -> Verdict {
    let mut violations = vec![];
    let log = Log::new();
    let mut sim = Sim::new(log.clone(), case.order.clone());
    let n = case.calls.len();
    // with the "no limit" timeout the deadline is modelled as far beyond every latency
    const NO_LIMIT_MS: u64 = 1_000_000_000;
    let touts: Vec<u64> = case
        .calls
        .iter()
        .map(|c| {
            if case.huge_timeout {
                NO_LIMIT_MS
            } else if case.per_request {
                c.timeout
            } else {
                case.timeout
            }
        })
        .collect();
    // with no limit the latencies are placed around the (unused) finite timeout of the case
    let lats: Vec<Option<u64>> = (0..n)
        .map(|i| latency_of(&case.calls[i], if case.huge_timeout { case.timeout } else { touts[i] }))
        .collect();
    let mut table: HashMap<u32, Vec<Step>> = HashMap::new();
    for i in 0..n {
        table.insert(
            i as u32,
            vec![Step {
                lat: match lats[i] {
                    None => Lat::Never,
                    Some(ms) if case.calls[i].frozen_for.is_some() => Lat::Spawned(ms),
                    Some(ms) if case.calls[i].busy && ms > 0 => Lat::Busy(ms),
                    Some(ms) => Lat::Ms(ms),
                },
                out: if case.calls[i].ok { Out::Ok } else { Out::Err(4) },
            }],
        );
    }
    let inner = Scripted::from_table(log.clone(), table, Step::ok(0));
    macro_rules! with_listeners {
        ($b:expr) => {{
            let b = $b;
            if case.listeners {
                b.on_success(|_| {}).on_error(|_| {}).on_timeout(|| {})
            } else {
                b
            }
        }};
    }
    // two differently typed services (fixed / per-request timeout): box the call closure
    let mut call: Option<Box<dyn FnMut(usize, Option<Req>) -> Option<Fut>>> = Some(if case.per_request {
        fn per_req(r: &Req) -> Duration {
            Duration::from_millis(r.tag)
        }
        let layer = if case.cancel_first {
            with_listeners!(TimeLimiterLayer::builder()
                .cancel_running_future(case.cancel)
                .timeout_fn(per_req as fn(&Req) -> Duration))
            .build()
        } else {
            with_listeners!(TimeLimiterLayer::builder().timeout_fn(per_req as fn(&Req) -> Duration))
                .cancel_running_future(case.cancel)
                .build()
        };
        let mut svc = layer.layer(inner.clone());
        let mut warm = std::collections::HashMap::new();
        Box::new(move |i, req| {
            let mut cx = std::task::Context::from_waker(futures::task::noop_waker_ref());
            match req {
                // drive a clone to readiness now, call it later
                None => {
                    let mut c = svc.clone();
                    let _ = c.poll_ready(&mut cx);
                    warm.insert(i, c);
                    None
                }
                Some(req) => match warm.remove(&i) {
                    Some(mut c) => Some(Box::pin(c.call(req)) as Fut),
                    None => {
                        let _ = svc.poll_ready(&mut cx);
                        Some(Box::pin(svc.call(req)) as Fut)
                    }
                },
            }
        })
    } else {
        let fixed = if case.huge_timeout {
            Duration::MAX
        } else {
            Duration::from_millis(case.timeout)
        };
        let layer = if case.cancel_first {
            with_listeners!(TimeLimiterLayer::builder().cancel_running_future(case.cancel))
                .timeout_duration(fixed)
                .build()
        } else {
            with_listeners!(TimeLimiterLayer::builder()
                .timeout_duration(fixed)
                .cancel_running_future(case.cancel))
            .build()
        };
        let mut svc = layer.layer(inner.clone());
        let mut warm = std::collections::HashMap::new();
        Box::new(move |i, req| {
            let mut cx = std::task::Context::from_waker(futures::task::noop_waker_ref());
            match req {
                // drive a clone to readiness now, call it later
                None => {
                    let mut c = svc.clone();
                    let _ = c.poll_ready(&mut cx);
                    warm.insert(i, c);
                    None
                }
                Some(req) => match warm.remove(&i) {
                    Some(mut c) => Some(Box::pin(c.call(req)) as Fut),
                    None => {
                        let _ = svc.poll_ready(&mut cx);
                        Some(Box::pin(svc.call(req)) as Fut)
                    }
                },
            }
        })
    });
    let last_arrival = case.calls.iter().map(|c| c.at).max().unwrap_or(0);

    let mut task = vec![None; n];
    let mut abandoned = vec![false; n];
    let horizon = (0..n)
        .map(|i| {
            let tout = if case.huge_timeout { case.timeout } else { touts[i] };
            case.calls[i].at + tout.max(lats[i].unwrap_or(0)).max(case.calls[i].frozen_for.unwrap_or(0))
        })
        .max()
        .unwrap_or(0)
        + 5
        + case.hold.unwrap_or(0);
    sim.hold_resolved_ms = case.hold;
    for t in 0..=horizon {
        if t > 0 {
            sim.begin_instant().await;
        }
        for i in 0..n {
            let c = &case.calls[i];
            if c.ready_before > 0 && c.at > 0 && c.at.saturating_sub(c.ready_before) == t {
                if let Some(f) = call.as_mut() {
                    let _ = f(i, None);
                }
            }
        }
        for i in 0..n {
            if case.calls[i].at == t {
                let req = Req {
                    id: i as u32,
                    key: 0,
                    tag: touts[i],
                };
                let fut = (call.as_mut().expect("service alive until the last arrival"))(i, Some(req))
                    .expect("a call returns its future");
                task[i] = Some(sim.spawn_call(fut, map_outcome));
            }
        }
        for i in 0..n {
            if let (Some(d), Some(tk)) = (case.calls[i].abandon_after, task[i]) {
                if case.calls[i].at + d == t && sim.state(tk) == crate::sim::TaskState::Live {
                    sim.cancel(tk);
                    abandoned[i] = true;
                }
            }
        }
        if case.drop_service && t == last_arrival {
            // nothing but the call futures (and what the layer spawned) refers to the service now
            call = None;
        }
        sim.settle().await;
        for i in 0..n {
            if let (Some(d), Some(tk), true) = (case.calls[i].frozen_for, task[i], case.calls[i].at == t) {
                sim.freeze(tk, t + d);
            }
        }
    }

    let snap = log.snapshot();
    let mut near = false;
    let mut noncancel_timeout = false;
    let mut tie = false;
    let mut any_abandoned = false;
    let mut any_frozen = false;
    for i in 0..n {
        let c = &case.calls[i];
        let tk = task[i].unwrap();
        let tmo = touts[i];
        let lat = lats[i];
        let resolve = snap.iter().find_map(|e| match e {
            Ev::Resolve { t, task, out } if *task == tk => Some((*t, out.clone())),
            _ => None,
        });
        let enter = snap.iter().find_map(|e| match e {
            Ev::Enter { t, serial, req, .. } if req.id == i as u32 => Some((*t, *serial)),
            _ => None,
        });
        let enters = snap
            .iter()
            .filter(|e| matches!(e, Ev::Enter { req, .. } if req.id == i as u32))
            .count();
        if let Some(l) = lat {
            if (l as i64 - tmo as i64).abs() <= 1 {
                near = true;
            }
        }
        if let Some(d) = c.frozen_for {
            any_frozen = true;
            // the caller polled once at `at` and then not before f1. Non-cancel mode races two
            // ready branches at f1 (either may win); cancel mode is judged:
            //  * result there before the deadline            => that result, at max(available, f1)
            //  * result not there by the deadline, f1 <= deadline => timeout error at the deadline
            //  * otherwise (both overdue when polled again)   => either, at f1
            let f1 = c.at + d;
            let deadline = c.at + tmo;
            if case.cancel && !case.huge_timeout {
                let Some((rt, out)) = resolve.clone() else {
                    violations.push(format!(
                        "call {i} (arrival {}, timeout {tmo} ms, latency {lat:?}, caller busy until t={f1}) had not resolved by t={horizon}",
                        c.at
                    ));
                    continue;
                };
                let timed_out = matches!(&out, Outcome::Layer(nm) if nm == "Timeout");
                // the instant at which the caller can notice something that became true at x: within
                // its arrival instant it is still polling, afterwards not before f1
                let eff = |x: u64| if x == c.at { c.at } else { x.max(f1) };
                match lat {
                    Some(l) if l < tmo => {
                        let want = eff(c.at + l);
                        if timed_out {
                            violations.push(format!(
                                "call {i} (arrival {}, timeout {tmo} ms): the inner result was there at t={}, before the deadline t={deadline}; the caller polled again at t={f1} and got the timeout error instead of it",
                                c.at,
                                c.at + l
                            ));
                        } else if rt != want {
                            violations.push(format!(
                                "call {i}: inner result there at t={}, caller polling again from t={f1}, resolved at t={rt}",
                                c.at + l
                            ));
                        }
                    }
                    Some(l) if l == tmo => {}
                    _ => {
                        let seen_deadline = eff(deadline);
                        let seen_result = lat.map(|l| eff(c.at + l));
                        if rt != seen_deadline {
                            violations.push(format!(
                                "call {i}: deadline t={deadline} (caller busy until t={f1}): expected resolution at t={seen_deadline}, resolved at t={rt} with {out:?}"
                            ));
                        } else if !timed_out && seen_result != Some(seen_deadline) {
                            violations.push(format!(
                                "call {i}: inner call not finished by the deadline t={deadline} (caller polling again from t={f1}) but the call resolved with {out:?} at t={rt}"
                            ));
                        }
                    }
                }
            }
            continue;
        }
        if abandoned[i] {
            any_abandoned = true;
            // the caller gave up before the call resolved. In cancel mode nothing keeps the inner
            // call alive past the deadline: it is gone (dropped, or finished) by then
            if let (true, false, Some((_, serial))) = (case.cancel, case.huge_timeout, enter) {
                let deadline = c.at + tmo;
                let ended = snap.iter().find_map(|e| match e {
                    Ev::Dropped { t, serial: s } if *s == serial => Some(*t),
                    Ev::Done { t, serial: s, .. } if *s == serial => Some(*t),
                    _ => None,
                });
                if !matches!(ended, Some(t) if t <= deadline) {
                    violations.push(format!(
                        "call {i} (arrival {}, timeout {tmo} ms, abandoned by its caller at t={}): cancellation enabled but the inner call was still alive after the deadline t={deadline} (ended: {ended:?})",
                        c.at,
                        c.at + c.abandon_after.unwrap_or(0)
                    ));
                }
            }
            continue;
        }
        if resolve.is_none() && case.huge_timeout && lat.is_none() {
            // no limit and an inner call that never finishes: staying pending is correct
            continue;
        }
        let Some((rt, out)) = resolve else {
            violations.push(format!(
                "call {i} (arrival {}, timeout {tmo} ms, latency {lat:?}) had not resolved by t={horizon}",
                c.at
            ));
            continue;
        };
        let deadline = c.at + tmo;
        if rt > deadline {
            violations.push(format!(
                "call {i} (arrival {}, timeout {tmo} ms) resolved at t={rt}, after its deadline t={deadline}",
                c.at
            ));
        }
        if enters != 1 && !(enters == 0 && matches!(out, Outcome::Layer(_))) {
            violations.push(format!("call {i}: inner service entered {enters} times"));
        }
        let expect_result = |violations: &mut Vec<String>| {
            let l = lat.unwrap();
            if rt != c.at + l {
                violations.push(format!(
                    "call {i}: inner result available at t={} but the call resolved at t={rt}",
                    c.at + l
                ));
            }
            let ok = match (&out, enter) {
                (Outcome::Ok { serial, req }, Some((_, s))) => c.ok && *serial == s && req.id == i as u32,
                (Outcome::Inner { serial, code }, Some((_, s))) => !c.ok && *serial == s && *code == 4,
                _ => false,
            };
            if !ok {
                violations.push(format!(
                    "call {i}: finished before its deadline but resolved with {out:?} instead of its own inner result"
                ));
            }
        };
        let expect_timeout = |violations: &mut Vec<String>| {
            if rt != deadline {
                violations.push(format!(
                    "call {i}: timeout error delivered at t={rt}, deadline is t={deadline}"
                ));
            }
        };
        let timed_out = matches!(&out, Outcome::Layer(nm) if nm == "Timeout");
        match lat {
            Some(l) if l < tmo => expect_result(&mut violations),
            Some(l) if l == tmo => {
                tie = true;
                if timed_out {
                    expect_timeout(&mut violations)
                } else {
                    expect_result(&mut violations)
                }
            }
            _ => {
                if !timed_out {
                    violations.push(format!(
                        "call {i}: inner call had not finished by the deadline t={deadline} (latency {lat:?}) but the call resolved with {out:?} at t={rt}"
                    ));
                } else {
                    expect_timeout(&mut violations);
                }
            }
        }
        // fate of the inner future
        if timed_out {
            if let Some((_, serial)) = enter {
                let dropped = snap.iter().find_map(|e| match e {
                    Ev::Dropped { t, serial: s } if *s == serial => Some(*t),
                    _ => None,
                });
                let done = snap.iter().find_map(|e| match e {
                    Ev::Done { t, serial: s, .. } if *s == serial => Some(*t),
                    _ => None,
                });
                if case.cancel {
                    let finished_on_the_tie = lat == Some(tmo) && done == Some(deadline);
                    if dropped != Some(deadline) && !finished_on_the_tie {
                        violations.push(format!(
                            "call {i}: cancellation enabled, inner call should be dropped at the deadline t={deadline} but drop was observed at {dropped:?}"
                        ));
                    }
                    if done.is_some() && lat != Some(tmo) {
                        violations.push(format!(
                            "call {i}: cancellation enabled but the inner call ran to completion at {done:?}"
                        ));
                    }
                } else {
                    noncancel_timeout = true;
                    if dropped.is_some() {
                        violations.push(format!(
                            "call {i}: cancellation disabled but the inner call was dropped at {dropped:?}"
                        ));
                    }
                    if let Some(l) = lat {
                        if done != Some(c.at + l) {
                            violations.push(format!(
                                "call {i}: cancellation disabled, inner call should complete in the background at t={} but completion was observed at {done:?}",
                                c.at + l
                            ));
                        }
                    }
                }
            } else if !(tmo == 0) {
                violations.push(format!(
                    "call {i}: timed out without the inner service ever being called"
                ));
            }
        }
    }
    for (task, msg) in &sim.unexpected_panics {
        violations.push(format!("unexpected panic in task {task}: {msg}"));
    }
    let mut classes = vec![];
    if near {
        classes.push("latency_within_1ms_of_deadline");
    }
    if case.listeners {
        classes.push("event_listeners_registered");
    }
    if n > 60 {
        classes.push("more_than_sixty_calls_at_once");
    }
    if any_frozen {
        classes.push("caller_busy_elsewhere_after_first_poll");
    }
    if any_abandoned {
        classes.push("caller_gave_up_before_resolution");
    }
    if tie {
        classes.push("latency_equals_deadline");
    }
    if noncancel_timeout {
        classes.push("timeout_in_non_cancel_mode");
    }
    if case.per_request {
        classes.push("per_request_timeout");
    }
    if n > 1 {
        classes.push("concurrent_calls");
    }
    if case.drop_service {
        classes.push("service_dropped_after_last_call");
    }
    if case.calls.iter().any(|c| c.busy) {
        classes.push("busy_inner_call");
    }
    if case.huge_timeout {
        classes.push("timeout_duration_max");
    }
    if case.hold.is_some() {
        classes.push("resolved_future_kept_alive");
    }
    if case.calls.iter().any(|c| c.ready_before > 0 && c.at > 0) {
        classes.push("ready_service_idle_before_the_call");
    }
    Verdict {
        violations,
        nontrivial: near || noncancel_timeout,
        classes,
        log: snap,
    }
}

pub struct C06;
impl Property for C06 {
    type Case = TlCase;
    fn id(&self) -> &'static str {
        "C06"
    }
    fn strategy(&self, tier: Tier) -> BoxedStrategy<TlCase> {
        case_strategy(tier)
    }
    fn budget(&self, tier: Tier) -> (u32, usize) {
        match tier {
            Tier::Quick => (150_000, 8),
            Tier::Thorough => (6_000_000, 16),
        }
    }
    fn run(&self, case: &TlCase) -> Report {
        let v = run_tl(case);
        let mut r = Report::default();
        if let Some(m) = v.violations.first() {
            r.fail(m.clone());
        }
        r.nontrivial = v.nontrivial;
        r.classes = v.classes.clone();
        let evs: Vec<_> = v.log.iter().take(60).collect();
        r.trace = json!({ "events": evs, "events_total": v.log.len() });
        r
    }
    fn rule(&self) -> String {
        "proptest-generated cases: timeout 0-300 ms fixed or per request, cancel mode on/off, 1-5 concurrent calls with arrival 0-20 ms and inner latency in {0, deadline-1, deadline, deadline+1, below, above, never}, ok/error, poll-order choices; virtual clock. Oracle: latency < timeout: resolves at exactly arrival+latency with its own inner serial/code; latency > timeout or never: Timeout at exactly arrival+timeout; equal: either, at that instant; never later than the deadline. Cancel mode: inner future dropped at the deadline instant and never completes; non-cancel mode: not dropped, completes at arrival+latency.Also generated: event listeners; callers that give up before resolution (cancel mode: nothing keeps the inner call alive past the deadline); a caller that is busy elsewhere after its first poll while the inner work is done by a task of its own (a result that was there before the deadline is delivered, not a timeout); a crowd of 66-90 slow calls followed by a quick one. Non-trivial: latency within 1 ms of the deadline, or a timeout in non-cancel mode; distinct by hash of the case".into()
    }
    fn assumptions(&self) -> Vec<String> {
        vec![
            "latency == timeout is a tie: either outcome accepted (select! order is tokio's)".into(),
            "with a zero timeout in non-cancel mode the inner call may or may not have been started when the timeout fires".into(),
        ]
    }
}
