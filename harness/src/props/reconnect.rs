//! C16: reconnect calls the inner service at most max_attempts+1 times, retries only after errors
//! its predicate accepts, waits the policy's delay before each retry, returns the first success or
//! an error wrapping the last inner error, and publishes the connection state.

use crate::runner::{Property, Report, Tier};
use crate::sim::{self, Ev, Log, Outcome, Req, Sim, TaskState};
use crate::svc::{Lat, Out, Scripted, Step};
use proptest::prelude::*;
use serde::{Deserialize, Serialize};
use serde_json::json;
use std::collections::HashMap;
use std::sync::Arc;
use std::time::Duration;
use tower::{Layer, Service};
use tower_resilience_reconnect::{
    ConnectionState, FixedInterval, IntervalFunction, ReconnectConfig, ReconnectLayer,
    ReconnectPolicy,
};

#[derive(Clone, Debug, Serialize, Deserialize, PartialEq)]
pub enum Policy {
    None,
    Fixed(u64),
    Exponential { init: u64, cap: u64 },
    Jittered { init: u64, cap: u64, factor10: u8 },
    Custom,
    /// custom interval function that keeps growing: attempt k waits k ms
    CustomLinear,
    /// ReconnectPolicy::fixed(Duration::from_micros(us)), 0 < us < 1000
    FixedMicros(u32),
}

fn one() -> u64 {
    1
}

#[derive(Clone, Debug, Serialize, Deserialize)]
pub struct RcCase {
    /// None = unlimited
    pub max_attempts: Option<u32>,
    pub policy: Policy,
    pub retry_on_reconnect: bool,
    pub predicate: bool,
    /// run all requests at once (on a clone and on a second service of the same layer) instead of
    /// one after the other
    #[serde(default)]
    pub concurrent: bool,
    /// the clock advances in steps of this many ms (stalled executor: timers are seen late)
    #[serde(default = "one")]
    pub step_ms: u64,
    /// concurrent mode: request i is issued this many ms after the start (missing = 0)
    #[serde(default)]
    pub starts: Vec<u64>,
    /// builder call order (gen::apply_in_order); bit 7: decoy values set first; bit 6: inner calls
    /// use up the cooperative budget in the poll they complete in
    #[serde(default)]
    pub setter_order: u8,
    /// unused (the reconnect callbacks exist only with the crate's `tracing` feature)
    #[serde(default)]
    pub listeners: bool,
    /// poll-order choices of the simulator (also the source of its spurious polls: a request
    /// future may be polled again although nothing woke it, as in a join! or select!)
    #[serde(default)]
    pub order: Vec<u8>,
    /// sequential requests; per request a script of (latency ms, outcome: 0 ok, 1 reconnectable, 2 other error)
    pub requests: Vec<Vec<(u64, u8)>>,
}

const CUSTOM_MS: [u64; 6] = [4, 9, 1, 0, 6, 2];

fn case_strategy(_tier: Tier) -> BoxedStrategy<RcCase> {
    let policy = prop_oneof![
        1 => Just(Policy::None),
        2 => (0u64..=20).prop_map(Policy::Fixed),
        3 => (1u64..=5, 1u64..=40).prop_map(|(init, cap)| Policy::Exponential { init, cap }),
        2 => (1u64..=5, 1u64..=40, 0u8..=10).prop_map(|(init, cap, factor10)| Policy::Jittered { init, cap, factor10 }),
        2 => Just(Policy::Custom),
        1 => Just(Policy::CustomLinear),
        1 => prop_oneof![Just(1u32), Just(900u32), 1u32..=999].prop_map(Policy::FixedMicros),
    ];
    let outcome = prop_oneof![3 => Just(0u8), 5 => Just(1u8), 2 => Just(2u8)];
    let script = prop::collection::vec((prop_oneof![2 => Just(0u64), 1 => 0u64..=10], outcome), 1..=10);
    let general = (
        prop_oneof![8 => (0u32..=5).prop_map(Some), 2 => Just(None), 1 => Just(Some(u32::MAX)), 1 => Just(Some(u32::MAX - 1))],
        policy,
        prop::bool::weighted(0.75),
        any::<bool>(),
        prop::collection::vec(script, 1..=3),
        prop::bool::weighted(0.4),
        prop_oneof![5 => Just(1u64), 1 => Just(2u64), 1 => Just(5u64), 1 => 2u64..=40],
        (
            prop_oneof![1 => Just(vec![]), 2 => prop::collection::vec(prop_oneof![1 => Just(0u64), 2 => 0u64..=25], 3)],
            prop_oneof![2 => Just(0u8), 1 => 0u8..8, 1 => 128u8..136, 1 => 64u8..72],
            Just(false),
            prop_oneof![1 => Just(vec![]), 1 => prop::collection::vec(any::<u8>(), 1..=12)],
        ),
    )
        .prop_map(|(max_attempts, policy, retry_on_reconnect, predicate, mut requests, concurrent, step_ms, (starts, setter_order, listeners, order))| {
            if max_attempts.map_or(true, |m| m > 1_000) {
                // unlimited (or practically unlimited) attempts: make every script end in a
                // success so the case terminates
                for s in requests.iter_mut() {
                    s.push((0, 0));
                }
            }
            RcCase {
                max_attempts,
                policy,
                retry_on_reconnect,
                predicate,
                concurrent,
                step_ms,
                starts,
                setter_order,
                listeners,
                order,
                requests,
            }
        });
    // long outage: one request fails 17-26 times in a row before it succeeds (or gives up), so
    // that high attempt numbers of the policy are exercised end to end
    let long = (
        prop_oneof![2 => (17u32..=30).prop_map(Some), 1 => Just(None)],
        prop_oneof![
            3 => Just(Policy::CustomLinear),
            1 => Just(Policy::Custom),
            1 => (1u64..=3, 1u64..=40).prop_map(|(init, cap)| Policy::Exponential { init, cap }),
            1 => (0u64..=2).prop_map(Policy::Fixed),
        ],
        17usize..=26,
    )
        .prop_map(|(max_attempts, policy, fails)| {
            let mut script = vec![(0u64, 1u8); fails];
            script.push((0, 0));
            RcCase {
                max_attempts,
                policy,
                retry_on_reconnect: true,
                predicate: false,
                concurrent: false,
                step_ms: 1,
                starts: vec![],
                setter_order: 0,
                listeners: false,
                order: vec![],
                requests: vec![script],
            }
        });
    prop_oneof![20 => general, 1 => long].boxed()
}

fn build_policy(p: &Policy) -> ReconnectPolicy {
    match p {
        Policy::None => ReconnectPolicy::none(),
        Policy::Fixed(ms) => ReconnectPolicy::fixed(Duration::from_millis(*ms)),
        Policy::Exponential { init, cap } => {
            ReconnectPolicy::exponential(Duration::from_millis(*init), Duration::from_millis(*cap))
        }
        Policy::Jittered { init, cap, factor10 } => ReconnectPolicy::exponential_random(
            Duration::from_millis(*init),
            Duration::from_millis(*cap),
            *factor10 as f64 / 10.0,
        ),
        Policy::Custom => ReconnectPolicy::Custom(Arc::new(CustomFn)),
        Policy::CustomLinear => ReconnectPolicy::Custom(Arc::new(LinearFn)),
        Policy::FixedMicros(us) => ReconnectPolicy::fixed(Duration::from_micros(*us as u64)),
    }
}

struct LinearFn;
impl IntervalFunction for LinearFn {
    fn next_interval(&self, attempt: usize) -> Duration {
        Duration::from_millis(attempt as u64)
    }
}

struct CustomFn;
impl IntervalFunction for CustomFn {
    fn next_interval(&self, attempt: usize) -> Duration {
        Duration::from_millis(CUSTOM_MS[attempt % CUSTOM_MS.len()])
    }
}

/// Lower bound (ns) of the delay the policy prescribes before retry k (k >= 1); both indexing
/// conventions (k and k-1) are accepted because the statement does not fix one.
fn min_delay_ns(p: &Policy, k: usize) -> Option<u128> {
    let lower = |att: usize| -> Option<u128> {
        match p {
            Policy::None => None,
            // documented value, computed here: min(initial x 2^attempt, max_delay)
            Policy::Exponential { init, cap } => {
                let v = (*init as f64 * 1e6) * 2f64.powi(att.min(1000) as i32);
                Some((v.min(*cap as f64 * 1e6) * (1.0 - 1e-9)) as u128)
            }
            Policy::Jittered { init, cap, factor10 } => {
                let v = (*init as f64 * 1e6) * 2f64.powi(att.min(1000) as i32);
                let base = v.min(*cap as f64 * 1e6);
                let f = *factor10 as f64 / 10.0;
                Some((base * (1.0 - f) * (1.0 - 1e-9)).max(0.0) as u128)
            }
            // the custom interval functions are the harness's own: computed here, not through the
            // policy object under test
            Policy::Custom => Some(CUSTOM_MS[att % CUSTOM_MS.len()] as u128 * 1_000_000),
            Policy::CustomLinear => Some(att as u128 * 1_000_000),
            Policy::Fixed(ms) => Some(*ms as u128 * 1_000_000),
            Policy::FixedMicros(us) => Some(*us as u128 * 1_000),
        }
    };
    let _ = FixedInterval::new(Duration::ZERO);
    match (lower(k), lower(k.saturating_sub(1))) {
        (Some(a), Some(b)) => Some(a.min(b)),
        _ => None,
    }
}

pub struct Verdict {
    pub violations: Vec<String>,
    pub classes: Vec<&'static str>,
    pub nontrivial: bool,
    pub log: Vec<Ev>,
}

pub fn run_rc(case: &RcCase) -> Verdict {
    sim::run_case(interp(case))
}

async fn interp(case: &RcCase) -> Verdict {
    let mut violations = vec![];
    let log = Log::new();
    let mut sim = Sim::new(log.clone(), case.order.clone());
    let mut table: HashMap<u32, Vec<Step>> = HashMap::new();
    for (i, s) in case.requests.iter().enumerate() {
        table.insert(
            i as u32,
            s.iter()
                .map(|&(lat, o)| Step {
                    lat: if case.setter_order & 64 != 0 { Lat::MsDrain(lat) } else { Lat::Ms(lat) },
                    out: if o == 0 { Out::Ok } else { Out::Err(o as u32) },
                })
                .collect(),
        );
    }
    let inner = Scripted::from_table(log.clone(), table, Step::ok(0));
    // builder discipline: setters in a generated order, optionally after other values of the same
    // fields (bit 7) which they must override
    let mut b0 = ReconnectConfig::builder();
    if case.setter_order & 128 != 0 {
        b0 = b0
            .policy(ReconnectPolicy::fixed(Duration::from_millis(777)))
            .retry_on_reconnect(!case.retry_on_reconnect);
        b0 = match case.max_attempts {
            Some(m) => b0.max_attempts(m.saturating_add(3)).unlimited_attempts(),
            None => b0.max_attempts(1),
        };
    }
    let (pol, ror, ma, pred) = (
        build_policy(&case.policy),
        case.retry_on_reconnect,
        case.max_attempts,
        case.predicate,
    );
    let b = crate::gen::apply_in_order(
        b0,
        vec![
            Box::new(move |b| b.policy(pol)),
            Box::new(move |b| b.retry_on_reconnect(ror)),
            Box::new(move |b| match ma {
                Some(m) => b.max_attempts(m),
                None => b.unlimited_attempts(),
            }),
            Box::new(move |b| {
                if pred {
                    b.reconnect_predicate(|e| e.to_string().contains("code=1,"))
                } else {
                    b
                }
            }),
        ],
        case.setter_order & 63,
    );
    let layer = ReconnectLayer::new(b.build());
    let state = layer.state().clone();
    let mut svc = layer.layer(inner.clone());

    let mut any_two_retries = false;
    let mut any_terminal = false;
    // ---- execution: sequential requests, or all of them in flight at once on clones of the service
    let n = case.requests.len();
    let mut tasks: Vec<usize> = vec![usize::MAX; n];
    let mut mids: Vec<Vec<u64>> = vec![vec![]; n];
    // "connected after a success": state writes happen in the poll that observes an inner result,
    // so whenever the most recent inner completion is a success the published state is Connected
    fn state_after_success(
        log: &Log,
        state: &tower_resilience_reconnect::ReconnectState,
        violations: &mut Vec<String>,
    ) {
        let last_ok = log.with(|l| {
            l.iter().rev().find_map(|e| match e {
                Ev::Done { ok, t, serial } => Some((*ok, *t, *serial)),
                _ => None,
            })
        });
        if let Some((true, t, serial)) = last_ok {
            let st = state.state();
            if st != ConnectionState::Connected && violations.is_empty() {
                violations.push(format!(
                    "t={}: the most recent inner call (number {serial}) succeeded at t={t} but the published state is {st:?}",
                    sim::now()
                ));
            }
        }
    }
    if case.concurrent && n > 1 {
        let mut second = layer.layer(inner.clone());
        let start_of = |i: usize| case.starts.get(i).copied().unwrap_or(0);
        let mut issued = vec![false; n];
        let mut guard = 0;
        let mut elapsed = 0u64;
        loop {
            for i in 0..n {
                if issued[i] || start_of(i) > elapsed {
                    continue;
                }
                issued[i] = true;
                let req = Req {
                    id: i as u32,
                    key: 0,
                    tag: 0x4EC0 + i as u64,
                };
                // alternate between a clone of the first service and a second service of the same layer
                let fut = if i % 2 == 0 {
                    let mut c = svc.clone();
                    let _ = futures::future::poll_fn(|cx| c.poll_ready(cx)).await;
                    c.call(req)
                } else {
                    let _ = futures::future::poll_fn(|cx| second.poll_ready(cx)).await;
                    second.call(req)
                };
                tasks[i] = sim.spawn_call(fut, |r| match r {
                    Ok(resp) => Outcome::Ok {
                        serial: resp.serial,
                        req: resp.req,
                    },
                    Err(e) => Outcome::Other(format!("{e}")),
                });
            }
            sim.settle().await;
            state_after_success(&log, &state, &mut violations);
            if issued.iter().all(|&x| x) && tasks.iter().all(|&t| sim.state(t) != TaskState::Live) {
                break;
            }
            let step = case.step_ms.max(1);
            crate::vclock::advance_ms(step - 1);
            sim.begin_instant().await;
            elapsed += step;
            guard += 1;
            if guard > 6_000 {
                violations.push("concurrent requests did not all resolve within 6000 steps".to_string());
                break;
            }
        }
    } else {
        for i in 0..n {
            let req = Req {
                id: i as u32,
                key: 0,
                tag: 0x4EC0 + i as u64,
            };
            let _ = futures::future::poll_fn(|cx| svc.poll_ready(cx)).await;
            let fut = svc.call(req.clone());
            let task = sim.spawn_call(fut, |r| match r {
                Ok(resp) => Outcome::Ok {
                    serial: resp.serial,
                    req: resp.req,
                },
                Err(e) => Outcome::Other(format!("{e}")),
            });
            tasks[i] = task;
            sim.settle().await;
            state_after_success(&log, &state, &mut violations);
            let mut guard = 0;
            while sim.state(task) == TaskState::Live {
                // sample the published state while the request is being handled (during a back-off
                // sleep, and while an attempt is in flight)
                if state.state() == ConnectionState::Connected {
                    mids[i].push(sim::now());
                }
                crate::vclock::advance_ms(case.step_ms.max(1) - 1);
                sim.tick().await;
                state_after_success(&log, &state, &mut violations);
                guard += 1;
                if guard > 3_000 {
                    violations.push(format!("request {i} did not resolve within 3000 ms"));
                    break;
                }
            }
        }
    }
    let sequential = !(case.concurrent && n > 1);

    for (i, script) in case.requests.iter().enumerate() {
        let req = Req {
            id: i as u32,
            key: 0,
            tag: 0x4EC0 + i as u64,
        };
        let task = tasks[i];
        let mid_sleep_connected = mids[i].clone();
        let snap = log.snapshot();
        let enters: Vec<(u64, u64)> = snap
            .iter()
            .filter_map(|e| match e {
                Ev::Enter { t, serial, req, .. } if req.id == i as u32 => Some((*t, *serial)),
                _ => None,
            })
            .collect();
        let done_t = |serial: u64| -> Option<u64> {
            snap.iter().find_map(|e| match e {
                Ev::Done { t, serial: s, .. } if *s == serial => Some(*t),
                _ => None,
            })
        };
        let outcome_of = |k: usize| script.get(k).or(script.last()).map(|s| s.1).unwrap_or(0);
        let reconnectable = |o: u8| o != 0 && (!case.predicate || o == 1);
        let nent = enters.len();
        if nent == 0 {
            violations.push(format!("request {i}: inner service never called"));
            continue;
        }
        for (t, _) in &enters {
            let _ = t;
        }
        if let Some(m) = case.max_attempts {
            if nent as u64 > m as u64 + 1 {
                violations.push(format!(
                    "request {i}: {nent} inner calls, max_attempts+1 = {}",
                    m as u64 + 1
                ));
            }
        }
        if nent >= 3 {
            any_two_retries = true;
        }
        for k in 0..nent {
            let o = outcome_of(k);
            if snap
                .iter()
                .any(|e| matches!(e, Ev::Enter { serial, req: r, .. } if *serial == enters[k].1 && *r != req))
            {
                violations.push(format!("request {i}: attempt {k} was given a different request"));
            }
            if k + 1 < nent {
                if !reconnectable(o) {
                    violations.push(format!(
                        "request {i}: attempt {k} ended with outcome {o} ({}), yet a retry followed",
                        if o == 0 { "success" } else { "an error the predicate does not classify as a connection failure" }
                    ));
                }
                let Some(dt) = done_t(enters[k].1) else { continue };
                let gap_ns = (enters[k + 1].0 - dt) as u128 * 1_000_000;
                match min_delay_ns(&case.policy, k + 1) {
                    None => violations.push(format!(
                        "request {i}: retried although the policy prescribes no reconnection"
                    )),
                    Some(want) => {
                        if gap_ns + 1_000 < want {
                            violations.push(format!(
                                "request {i}: retry {} started {} ms after the failure, the policy's delay is at least {} ns",
                                k + 1,
                                enters[k + 1].0 - dt,
                                want
                            ));
                        }
                    }
                }
                if !case.retry_on_reconnect {
                    violations.push(format!(
                        "request {i}: retry_on_reconnect is off but the request was retried"
                    ));
                }
            }
        }
        // result
        let resolve = snap.iter().find_map(|e| match e {
            Ev::Resolve { t, task: tk, out } if *tk == task => Some((*t, out.clone())),
            _ => None,
        });
        let last = nent - 1;
        let last_o = outcome_of(last);
        let last_serial = enters[last].1;
        match resolve {
            None => {}
            Some((rt, Outcome::Ok { serial, req: rq })) => {
                if last_o != 0 || serial != last_serial || rq != req || Some(rt) != done_t(last_serial) {
                    violations.push(format!(
                        "request {i}: returned Ok(serial {serial}) at t={rt}; the first success is attempt {last} (inner call {last_serial}, outcome {last_o})"
                    ));
                }
                for k in 0..last {
                    if outcome_of(k) == 0 {
                        violations.push(format!("request {i}: attempt {k} succeeded but was not returned"));
                    }
                }
                if sequential && i + 1 == n && state.state() != ConnectionState::Connected {
                    violations.push(format!(
                        "request {i} succeeded but the published state is {:?}",
                        state.state()
                    ));
                }
            }
            Some((rt, Outcome::Other(msg))) => {
                any_terminal = true;
                let needle = format!("SErr(code={last_o},serial={last_serial})");
                if last_o == 0 {
                    violations.push(format!(
                        "request {i}: returned error '{msg}' at t={rt} although its last attempt succeeded"
                    ));
                } else if !msg.contains(&needle) {
                    violations.push(format!(
                        "request {i}: returned error '{msg}', which does not wrap the last inner error {needle}"
                    ));
                }
            }
            Some((_, other)) => violations.push(format!("request {i}: unexpected outcome {other:?}")),
        }
        // state while a reconnectable failure was being handled
        for t in mid_sleep_connected {
            // only meaningful if a reconnectable failure had been observed before that instant
            let first_fail = (0..nent).find(|&k| reconnectable(outcome_of(k))).and_then(|k| done_t(enters[k].1));
            if let Some(ft) = first_fail {
                let resolved_at = snap.iter().find_map(|e| match e {
                    Ev::Resolve { t, task: tk, .. } if *tk == task => Some(*t),
                    _ => None,
                });
                if t >= ft && resolved_at.map_or(true, |r| t < r) {
                    violations.push(format!(
                        "request {i}: published state is Connected at t={t} while a reconnectable failure (at t={ft}) is being handled"
                    ));
                    break;
                }
            }
        }
    }
    for (task, msg) in &sim.unexpected_panics {
        violations.push(format!("unexpected panic in task {task}: {msg}"));
    }
    let mut classes = vec![];
    if any_two_retries {
        classes.push("two_or_more_retries");
    }
    if any_terminal {
        classes.push("terminal_error");
    }
    if case.max_attempts.is_none() {
        classes.push("unlimited_attempts");
    }
    if !case.retry_on_reconnect {
        classes.push("retry_on_reconnect_off");
    }
    if case.predicate {
        classes.push("predicate");
    }
    if !sequential {
        classes.push("concurrent_requests_one_layer");
    }
    if case.step_ms > 1 {
        classes.push("coarse_clock_steps");
    }
    if !sequential && case.starts.iter().any(|&x| x > 0) {
        classes.push("staggered_concurrent_requests");
    }
    Verdict {
        violations,
        nontrivial: any_two_retries && any_terminal,
        classes,
        log: log.snapshot(),
    }
}

pub struct C16;
impl Property for C16 {
    type Case = RcCase;
    fn id(&self) -> &'static str {
        "C16"
    }
    fn strategy(&self, tier: Tier) -> BoxedStrategy<RcCase> {
        case_strategy(tier)
    }
    fn budget(&self, tier: Tier) -> (u32, usize) {
        match tier {
            Tier::Quick => (1_200_000, 8),
            Tier::Thorough => (20_000_000, 16),
        }
    }
    fn run(&self, case: &RcCase) -> Report {
        let v = run_rc(case);
        let mut r = Report::default();
        if let Some(m) = v.violations.first() {
            r.fail(m.clone());
        }
        r.nontrivial = v.nontrivial;
        r.classes = v.classes.clone();
        let evs: Vec<_> = v.log.iter().take(60).collect();
        r.trace = json!({ "events": evs, "events_total": v.log.len() });
        r
    }
    fn rule(&self) -> String {
        "proptest-generated cases: max_attempts 0-5 or unlimited (scripts then end in a success), policy in {none, fixed, exponential, jittered, custom non-monotone}, retry_on_reconnect on/off, predicate on/off, 1-3 sequential requests each with an outcome script (ok / reconnectable / other error, latency 0-10 ms); virtual clock. Oracle (reference reading of the script): inner calls <= max_attempts+1, each with the caller's request; a retry only after an error the predicate accepts, never with the none policy or retry_on_reconnect off; gap before retry k >= the policy's delay (either indexing convention, jitter lower bound); Ok only for the first success with its serial at its completion instant, otherwise an error whose text wraps exactly the last inner error (code and serial); state() Connected after a success and never Connected at any sampled instant between a reconnectable failure of a request and that request's resolution (back-off sleeps and replayed attempts in flight alike). Non-trivial: at least two retries in one request and a terminal error somewhere in the case; distinct by hash of the case".into()
    }
    fn assumptions(&self) -> Vec<String> {
        vec![
            "the error type is not exported, so payload identity is checked through Display".into(),
            "making fewer than max_attempts+1 calls is allowed by the statement".into(),
        ]
    }
}
