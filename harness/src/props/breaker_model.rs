//! C04: the circuit breaker follows its documented state machine. Sequential generated histories
//! are run against the real service and against a reference model written from the statement; the
//! model is a *set of worlds* wherever the statement leaves a choice open.

use crate::runner::{Property, Report, Tier};
use crate::sim::{self, Log, Outcome, Req, Sim, TaskState};
use crate::svc::{Scripted, SErr, Resp, Step};
use proptest::prelude::*;
use serde::{Deserialize, Serialize};
use serde_json::json;
use std::sync::{Arc, Mutex};
use std::time::Duration;
use tower::Service;
use tower_resilience_circuitbreaker::classifier::FailureClassifier;
use tower_resilience_circuitbreaker::{
    CircuitBreaker, CircuitBreakerError, CircuitBreakerLayer, CircuitState, SlidingWindowType,
};

#[derive(Clone, Debug, Serialize, Deserialize)]
pub struct CbConfig {
    pub time_based: bool,
    /// count-based window size
    pub size: usize,
    /// time-based window duration is window_ms + 0.5 ms
    pub window_ms: u64,
    /// failure threshold = thr20 / 20
    pub thr20: u8,
    pub min: Option<usize>,
    pub permitted: usize,
    /// wait_duration_in_open = wait_ms + 0.5 ms
    pub wait_ms: u64,
    /// "never auto-recover" settings instead of wait_ms: 1 Duration::MAX, 2 from_secs(u64::MAX),
    /// 3 a hundred years (0 = use wait_ms)
    #[serde(default)]
    pub wait_huge: u8,
    /// slow-call detection: (threshold_ms (+0.5 ms), rate in tenths)
    pub slow: Option<(u64, u8)>,
    /// slow-call rate threshold configured although detection is off (must have no effect)
    #[serde(default)]
    pub idle_slow_rate10: Option<u8>,
    pub custom_classifier: bool,
    /// install the custom classifier on the builder before the other settings instead of after
    #[serde(default)]
    pub classifier_first: bool,
    /// every kind of event listener is registered on the layer
    #[serde(default)]
    pub listeners: bool,
    /// C04: the breaker is driven through the service returned by with_fallback() (a rejected
    /// call gets the fallback's response instead of the OpenCircuit error; the machine is the same)
    #[serde(default)]
    pub via_fallback: bool,
    /// failure threshold in hundredths (overrides thr20): thresholds like 0.28 that are not a
    /// multiple of 0.05
    #[serde(default)]
    pub thr100: Option<u8>,
}

#[derive(Clone, Debug, Serialize, Deserialize, PartialEq)]
pub enum Op {
    /// kind: 0 Ok, 1 Ok-but-bad (custom classifier: failure), 2 Err, 3 Err-ignored (custom: success)
    Call { kind: u8, dur: Dur },
    Adv(Adv),
    ForceOpen,
    ForceClosed,
    Reset,
}

#[derive(Clone, Copy, Debug, Serialize, Deserialize, PartialEq)]
pub enum Dur {
    Zero,
    Short(u8),
    /// exactly the slow threshold's whole-ms part (just below the threshold)
    JustBelow,
    /// threshold + 0.5 ms
    JustAbove,
    Long(u8),
}

#[derive(Clone, Copy, Debug, Serialize, Deserialize, PartialEq)]
pub enum Adv {
    Ms(u8),
    /// wait_ms + delta (delta 0: just short of the wait; 1: just past it)
    Wait(i8),
    /// window_ms + delta
    Window(i8),
    Long,
}

#[derive(Clone, Debug, Serialize, Deserialize)]
pub struct CbCase {
    pub cfg: CbConfig,
    pub ops: Vec<Op>,
}

pub fn config_strategy() -> BoxedStrategy<CbConfig> {
    (
        any::<bool>(),
        1usize..=12,
        prop_oneof![Just(50u64), 20u64..=400],
        0u8..=20,
        prop_oneof![2 => Just(None), 5 => (1usize..=15).prop_map(Some)],
        1usize..=5,
        prop_oneof![Just(20u64), 20u64..=200],
        prop_oneof![1 => Just(None), 1 => (5u64..=40, 0u8..=10).prop_map(Some)],
        any::<bool>(),
        (prop_oneof![2 => Just(None), 1 => (0u8..=10).prop_map(Some)], prop_oneof![12 => Just(0u8), 1 => 1u8..=3], any::<bool>(), prop::bool::weighted(0.3), prop::bool::weighted(0.35)),
    )
        .prop_map(
            |(
                time_based,
                size,
                window_ms,
                thr20,
                min,
                permitted,
                wait_ms,
                slow,
                custom_classifier,
                (idle_slow_rate10, wait_huge, classifier_first, listeners, via_fallback),
            )| {
                CbConfig {
                    time_based,
                    size,
                    window_ms,
                    thr20,
                    min,
                    permitted,
                    wait_ms,
                    slow,
                    custom_classifier,
                    idle_slow_rate10: if slow.is_some() { None } else { idle_slow_rate10 },
                    wait_huge,
                    classifier_first,
                    listeners,
                    via_fallback,
                    thr100: None,
                }
            },
        )
        .boxed()
}

pub fn op_strategy() -> BoxedStrategy<Op> {
    let dur = prop_oneof![
        4 => Just(Dur::Zero),
        2 => (1u8..=4).prop_map(Dur::Short),
        1 => Just(Dur::JustBelow),
        2 => Just(Dur::JustAbove),
        1 => (1u8..=20).prop_map(Dur::Long),
    ];
    let adv = prop_oneof![
        4 => (1u8..=30).prop_map(Adv::Ms),
        3 => (-1i8..=2).prop_map(Adv::Wait),
        2 => (-1i8..=2).prop_map(Adv::Window),
        1 => Just(Adv::Long),
    ];
    prop_oneof![
        14 => (0u8..4, dur).prop_map(|(kind, dur)| Op::Call { kind, dur }),
        5 => adv.prop_map(Op::Adv),
        1 => Just(Op::ForceOpen),
        1 => Just(Op::ForceClosed),
        1 => Just(Op::Reset),
    ]
    .boxed()
}

fn case_strategy(tier: Tier) -> BoxedStrategy<CbCase> {
    let max_ops = match tier {
        Tier::Quick => 60usize,
        Tier::Thorough => 400,
    };
    let general = (
        config_strategy(),
        prop::collection::vec(op_strategy(), 0..=max_ops),
    )
        .prop_map(|(cfg, ops)| CbCase { cfg, ops });
    // a large count-based window with a threshold in hundredths and mostly successful calls, so
    // that the failure rate climbs to the threshold one call at a time and meets it exactly
    let sizes = match tier {
        Tier::Quick => prop_oneof![3 => Just(25usize), 1 => Just(20usize), 1 => Just(50usize)].boxed(),
        Tier::Thorough => prop_oneof![2 => Just(25usize), 1 => Just(50usize), 2 => Just(100usize), 1 => 20usize..=100].boxed(),
    };
    let big = (
        sizes,
        prop_oneof![Just(28u8), Just(14u8), Just(56u8), Just(7u8), Just(55u8), 1u8..=99],
        prop::collection::vec(prop_oneof![4 => Just(0u8), 1 => Just(2u8)], 20..=120),
        any::<bool>(),
        1u8..=9,
    )
        .prop_map(|(size, thr100, kinds, via_fallback, extra)| {
            let mut ops: Vec<Op> = kinds
                .into_iter()
                .map(|kind| Op::Call { kind, dur: Dur::Zero })
                .collect();
            // enough calls to fill the window and slide it a little
            while ops.len() < size + extra as usize {
                ops.push(Op::Call { kind: 0, dur: Dur::Zero });
            }
            CbCase {
                cfg: CbConfig {
                    time_based: false,
                    size,
                    window_ms: 50,
                    thr20: 10,
                    min: None,
                    permitted: 2,
                    wait_ms: 20,
                    slow: None,
                    custom_classifier: false,
                    idle_slow_rate10: None,
                    wait_huge: 0,
                    classifier_first: false,
                    listeners: false,
                    via_fallback,
                    thr100: Some(thr100),
                },
                ops,
            }
        });
    prop_oneof![60 => general, 1 => big].boxed()
}

// ------------------------------------------------------------------ reference model

#[derive(Clone, Copy, Debug, PartialEq, Eq, Serialize)]
pub enum St {
    Closed,
    Open,
    HalfOpen,
}

#[derive(Clone, Debug, PartialEq)]
struct Rec {
    t2: u64,
    fail: bool,
    slow: bool,
}

/// One candidate state of the documented machine. Times are in half-milliseconds.
#[derive(Clone, Debug, PartialEq)]
pub struct World {
    /// reading of "at least minimum_number_of_calls recorded": counted inside the sliding window
    /// (true) or since the window was last cleared (false)
    min_in_window: bool,
    st: St,
    recs: Vec<Rec>,
    opened_at2: u64,
    ho_succ: usize,
}

pub struct ModelCfg {
    pub time_based: bool,
    pub size: usize,
    pub window2: u64,
    /// failure threshold as a fraction num/den
    pub thr_num: u64,
    pub thr_den: u64,
    pub thr20: u64,
    pub min: usize,
    pub permitted: usize,
    pub wait2: u64,
    pub slow2: Option<(u64, u64)>,
}

impl ModelCfg {
    pub fn from(c: &CbConfig) -> Self {
        ModelCfg {
            time_based: c.time_based,
            size: c.size,
            window2: 2 * c.window_ms + 1,
            thr_num: c.thr100.map_or(c.thr20 as u64, |h| h as u64),
            thr_den: if c.thr100.is_some() { 100 } else { 20 },
            thr20: c.thr20 as u64,
            min: c.min.unwrap_or(c.size),
            permitted: c.permitted,
            wait2: if c.wait_huge > 0 { u64::MAX } else { 2 * c.wait_ms + 1 },
            slow2: c.slow.map(|(ms, r)| (2 * ms + 1, r as u64)),
        }
    }
}

impl World {
    pub fn initial() -> Vec<World> {
        [true, false]
            .iter()
            .map(|&m| World {
                min_in_window: m,
                st: St::Closed,
                recs: vec![],
                opened_at2: 0,
                ho_succ: 0,
            })
            .collect()
    }

    fn go(&mut self, st: St, now2: u64) {
        self.st = st;
        self.recs.clear();
        self.ho_succ = 0;
        if st == St::Open {
            self.opened_at2 = now2;
        }
    }

    /// admission decision at `now2`; may move Open -> HalfOpen
    pub fn admit(&mut self, cfg: &ModelCfg, now2: u64) -> bool {
        match self.st {
            St::Closed => true,
            St::Open => {
                if now2 - self.opened_at2 >= cfg.wait2 {
                    self.go(St::HalfOpen, now2);
                    true
                } else {
                    false
                }
            }
            // sequential histories: every recorded trial either closes, re-opens or leaves
            // fewer than `permitted` successes, so a half-open breaker always has a trial left
            St::HalfOpen => true,
        }
    }

    /// outcome recorded at `now2` for a call that took `dur2`
    pub fn record(&mut self, cfg: &ModelCfg, now2: u64, fail: bool, dur2: u64) {
        let slow = cfg.slow2.map_or(false, |(th2, _)| dur2 >= th2);
        match self.st {
            St::HalfOpen => {
                if fail {
                    self.go(St::Open, now2);
                } else {
                    self.ho_succ += 1;
                    if self.ho_succ >= cfg.permitted {
                        self.go(St::Closed, now2);
                    }
                }
            }
            St::Closed | St::Open => {
                self.recs.push(Rec {
                    t2: now2,
                    fail,
                    slow,
                });
                if self.st == St::Closed {
                    let recorded = self.recs.len();
                    let win: Vec<&Rec> = if cfg.time_based {
                        self.recs
                            .iter()
                            .filter(|r| now2 - r.t2 <= cfg.window2)
                            .collect()
                    } else {
                        let n = self.recs.len();
                        self.recs[n.saturating_sub(cfg.size)..].iter().collect()
                    };
                    let counted = if self.min_in_window {
                        win.len()
                    } else {
                        recorded
                    };
                    if counted < cfg.min {
                        return;
                    }
                    if !cfg.time_based && win.len() < cfg.size {
                        return;
                    }
                    let n = win.len() as u64;
                    if n == 0 {
                        return;
                    }
                    let f = win.iter().filter(|r| r.fail).count() as u64;
                    let s = win.iter().filter(|r| r.slow).count() as u64;
                    let by_fail = cfg.thr_den * f >= cfg.thr_num * n;
                    let by_slow = cfg.slow2.map_or(false, |(_, r10)| 10 * s >= r10 * n);
                    if by_fail || by_slow {
                        self.go(St::Open, now2);
                    }
                }
            }
        }
    }
}

fn dedup(ws: &mut Vec<World>) {
    let mut out: Vec<World> = vec![];
    for w in ws.drain(..) {
        if !out.contains(&w) {
            out.push(w);
        }
    }
    *ws = out;
}

// ------------------------------------------------------------------ interpreter

fn custom_classifier(r: &Result<Resp, SErr>) -> bool {
    match r {
        Ok(resp) => resp.req.tag % 2 == 1,
        Err(e) => e.code != 7,
    }
}

fn map_outcome(r: Result<Resp, CircuitBreakerError<SErr>>) -> Outcome {
    match r {
        Ok(resp) => Outcome::Ok {
            serial: resp.serial,
            req: resp.req,
        },
        Err(CircuitBreakerError::Inner(e)) => Outcome::Inner {
            code: e.code,
            serial: e.serial,
        },
        Err(CircuitBreakerError::OpenCircuit) => Outcome::Layer("OpenCircuit".into()),
    }
}

const FALLBACK_BASE: u64 = 8_000_000_000;

/// Either service type of the breaker behind one interface (they share every control method).
enum AnyCb<C> {
    Plain(CircuitBreaker<Scripted, C>),
    Fb(tower_resilience_circuitbreaker::CircuitBreakerWithFallback<Scripted, C, Req, Resp, SErr>),
}

macro_rules! both {
    ($self:expr, $s:ident => $e:expr) => {
        match $self {
            AnyCb::Plain($s) => $e,
            AnyCb::Fb($s) => $e,
        }
    };
}

impl<C> AnyCb<C>
where
    C: FailureClassifier<Resp, SErr> + Send + Sync + 'static,
{
    fn poll_ready(&mut self, cx: &mut std::task::Context<'_>) -> std::task::Poll<Result<(), CircuitBreakerError<SErr>>> {
        both!(self, s => s.poll_ready(cx))
    }
    fn call(&mut self, req: Req) -> futures::future::BoxFuture<'static, Result<Resp, CircuitBreakerError<SErr>>> {
        both!(self, s => Box::pin(s.call(req)))
    }
    async fn force_open(&self) {
        both!(self, s => s.force_open().await)
    }
    async fn force_closed(&self) {
        both!(self, s => s.force_closed().await)
    }
    async fn reset(&self) {
        both!(self, s => s.reset().await)
    }
    async fn state(&self) -> CircuitState {
        both!(self, s => s.state().await)
    }
    async fn metrics(&self) -> tower_resilience_circuitbreaker::CircuitMetrics {
        both!(self, s => s.metrics().await)
    }
    fn state_sync(&self) -> CircuitState {
        both!(self, s => s.state_sync())
    }
    fn is_open(&self) -> bool {
        both!(self, s => s.is_open())
    }
}

fn to_st(s: CircuitState) -> St {
    match s {
        CircuitState::Closed => St::Closed,
        CircuitState::Open => St::Open,
        CircuitState::HalfOpen => St::HalfOpen,
    }
}

pub struct Verdict {
    pub violation: Option<String>,
    pub steps: Vec<serde_json::Value>,
    pub transitions: usize,
    pub recorded_calls: usize,
    pub manual_after_calls: bool,
    pub longer_than_window: bool,
    pub classes: Vec<&'static str>,
}

pub fn run_case(case: &CbCase) -> Verdict {
    if case.cfg.custom_classifier {
        let f = custom_classifier as fn(&Result<Resp, SErr>) -> bool;
        let layer = if case.cfg.classifier_first {
            apply_settings(CircuitBreakerLayer::builder().failure_classifier(f), &case.cfg).build()
        } else {
            builder(&case.cfg).failure_classifier(f).build()
        };
        sim::run_case(interp(case, move |inner| layer.layer_fn(inner)))
    } else {
        let layer = builder(&case.cfg).build();
        sim::run_case(interp(case, move |inner| layer.layer_fn(inner)))
    }
}

pub fn wait_duration(c: &CbConfig) -> Duration {
    match c.wait_huge {
        0 => Duration::from_millis(c.wait_ms) + Duration::from_micros(500),
        1 => Duration::MAX,
        2 => Duration::from_secs(u64::MAX),
        _ => Duration::from_secs(100 * 365 * 86_400),
    }
}

pub fn builder(
    c: &CbConfig,
) -> tower_resilience_circuitbreaker::CircuitBreakerConfigBuilder {
    apply_settings(CircuitBreakerLayer::builder(), c)
}

/// Applies every setting of `c` to a builder of any classifier type, so that the classifier can
/// be installed before or after them (the type-changing setter copies the fields over).
pub fn apply_settings<C>(
    b: tower_resilience_circuitbreaker::CircuitBreakerConfigBuilder<C>,
    c: &CbConfig,
) -> tower_resilience_circuitbreaker::CircuitBreakerConfigBuilder<C> {
    let half = Duration::from_micros(500);
    let mut b = b
        .failure_rate_threshold(c.thr100.map_or(c.thr20 as f64 / 20.0, |h| h as f64 / 100.0))
        .sliding_window_size(c.size)
        .permitted_calls_in_half_open(c.permitted)
        .wait_duration_in_open(wait_duration(c))
        .name("vcheck");
    if c.time_based {
        b = b
            .sliding_window_type(SlidingWindowType::TimeBased)
            .sliding_window_duration(Duration::from_millis(c.window_ms) + half);
    }
    if let Some(m) = c.min {
        b = b.minimum_number_of_calls(m);
    }
    if let Some((ms, r10)) = c.slow {
        b = b
            .slow_call_duration_threshold(Duration::from_millis(ms) + half)
            .slow_call_rate_threshold(r10 as f64 / 10.0);
    } else if let Some(r10) = c.idle_slow_rate10 {
        b = b.slow_call_rate_threshold(r10 as f64 / 10.0);
    }
    if c.listeners {
        b = b
            .on_call_permitted(|_| {})
            .on_call_rejected(|| {})
            .on_success(|_| {})
            .on_failure(|_| {})
            .on_slow_call(|_| {})
            .on_state_transition(|_, _| {});
    }
    b
}

pub fn dur_ms(d: Dur, cfg: &CbConfig) -> u64 {
    let th = cfg.slow.map(|s| s.0).unwrap_or(10);
    match d {
        Dur::Zero => 0,
        Dur::Short(k) => (k as u64).min(th),
        Dur::JustBelow => th,
        Dur::JustAbove => th + 1,
        Dur::Long(k) => th + 1 + k as u64,
    }
}

pub fn adv_ms(a: Adv, cfg: &CbConfig) -> u64 {
    match a {
        Adv::Ms(k) => k as u64,
        Adv::Wait(d) => (cfg.wait_ms as i64 + d as i64).max(0) as u64,
        Adv::Window(d) => (cfg.window_ms as i64 + d as i64).max(0) as u64,
        Adv::Long => 700,
    }
}

async fn interp<C, F>(case: &CbCase, make: F) -> Verdict
where
    C: FailureClassifier<Resp, SErr> + Send + Sync + 'static,
    F: FnOnce(Scripted) -> CircuitBreaker<Scripted, C>,
{
    let cfg = &case.cfg;
    let mcfg = ModelCfg::from(cfg);
    let log = Log::new();
    let mut sim = Sim::new(log.clone(), vec![]);
    // script: the request tag carries (kind, duration)
    let inner = Scripted::new(log.clone(), 1, |req, _, _| {
        let kind = (req.tag >> 32) as u8;
        let dur = (req.tag >> 8) & 0xffff;
        match kind {
            0 | 1 => Step::ok(dur),
            2 => Step::err(dur, 3),
            _ => Step::err(dur, 7),
        }
    });
    let plain = make(inner.clone());
    let mut cb = if cfg.via_fallback {
        AnyCb::Fb(plain.with_fallback(|req: Req| -> futures::future::BoxFuture<'static, Result<Resp, SErr>> {
            Box::pin(async move {
                Ok(Resp {
                    serial: FALLBACK_BASE + req.id as u64,
                    req,
                })
            })
        }))
    } else {
        AnyCb::Plain(plain)
    };
    let mut worlds = World::initial();
    let mut v = Verdict {
        violation: None,
        steps: vec![],
        transitions: 0,
        recorded_calls: 0,
        manual_after_calls: false,
        longer_than_window: false,
        classes: vec![],
    };
    let mut last_state = St::Closed;
    let mut calls_since_transition = 0usize;
    let seen: Arc<Mutex<Vec<&'static str>>> = Arc::new(Mutex::new(vec![]));

    for (i, op) in case.ops.iter().enumerate() {
        let mut admitted_obs: Option<bool> = None;
        match op {
            Op::Call { kind, dur } => {
                let d = dur_ms(*dur, cfg);
                // Ok-but-bad has an odd tag, plain Ok an even one
                let low = if *kind == 1 { 1 } else { 0 };
                let tag = ((*kind as u64) << 32) | (d << 8) | low;
                let req = Req {
                    id: i as u32,
                    key: 0,
                    tag,
                };
                let before = inner.shared.calls();
                let _ = futures::future::poll_fn(|cx| cb.poll_ready(cx)).await;
                let fut = cb.call(req);
                let t_start2 = 2 * sim::now();
                let task = sim.spawn_call(fut, map_outcome);
                sim.settle().await;
                let admitted = inner.shared.calls() > before;
                admitted_obs = Some(admitted);
                let mut guard = 0;
                while sim.state(task) == TaskState::Live {
                    sim.tick().await;
                    guard += 1;
                    if guard > d + 5 {
                        v.violation = Some(format!(
                            "step {i}: call did not resolve within {} ms of its scripted latency {d} ms",
                            guard
                        ));
                        return v;
                    }
                }
                let now2 = 2 * sim::now();
                // model
                let fail = if cfg.custom_classifier {
                    *kind == 1 || *kind == 2
                } else {
                    *kind >= 2
                };
                let mut next = vec![];
                for mut w in worlds.drain(..) {
                    let adm = w.admit(&mcfg, t_start2);
                    if adm != admitted {
                        continue;
                    }
                    if adm {
                        w.record(&mcfg, now2, fail, now2 - t_start2);
                    }
                    next.push(w);
                }
                worlds = next;
                if admitted {
                    v.recorded_calls += 1;
                    calls_since_transition += 1;
                    if slow_of(cfg, d) {
                        push_class(&seen, "slow_call");
                    }
                }
                // the caller must get its own result or OpenCircuit
                let out = log.with(|l| {
                    l.iter().rev().find_map(|e| match e {
                        sim::Ev::Resolve { task: t, out, .. } if *t == task => Some(out.clone()),
                        _ => None,
                    })
                });
                let ok_shape = match (&out, admitted) {
                    (Some(Outcome::Layer(n)), false) => n == "OpenCircuit" && !cfg.via_fallback,
                    (Some(Outcome::Ok { serial, req }), false) => {
                        cfg.via_fallback && *serial == FALLBACK_BASE + i as u64 && req.id == i as u32
                    }
                    (Some(Outcome::Ok { req, .. }), true) => req.id == i as u32 && *kind < 2,
                    (Some(Outcome::Inner { code, .. }), true) => {
                        (*kind == 2 && *code == 3) || (*kind == 3 && *code == 7)
                    }
                    _ => false,
                };
                if !ok_shape {
                    v.violation = Some(format!(
                        "step {i}: call (admitted={admitted}) resolved with {out:?}, which is neither its own inner result nor OpenCircuit"
                    ));
                    return v;
                }
            }
            Op::Adv(a) => {
                sim.advance(adv_ms(*a, cfg)).await;
            }
            Op::ForceOpen => {
                cb.force_open().await;
                let now2 = 2 * sim::now();
                let mut next = vec![];
                for mut w in worlds.drain(..) {
                    if w.st == St::Open {
                        // statement silent: timer restarted or not
                        let mut w2 = w.clone();
                        w2.opened_at2 = now2;
                        next.push(w2);
                        next.push(w);
                    } else {
                        w.go(St::Open, now2);
                        next.push(w);
                    }
                }
                worlds = next;
                if v.recorded_calls > 0 {
                    v.manual_after_calls = true;
                }
            }
            Op::ForceClosed => {
                cb.force_closed().await;
                let now2 = 2 * sim::now();
                let mut next = vec![];
                for mut w in worlds.drain(..) {
                    if w.st == St::Closed {
                        // statement silent: window kept or cleared
                        let mut w2 = w.clone();
                        w2.recs.clear();
                        next.push(w2);
                        next.push(w);
                    } else {
                        w.go(St::Closed, now2);
                        next.push(w);
                    }
                }
                worlds = next;
                if v.recorded_calls > 0 {
                    v.manual_after_calls = true;
                }
            }
            Op::Reset => {
                cb.reset().await;
                let now2 = 2 * sim::now();
                for w in worlds.iter_mut() {
                    w.go(St::Closed, now2);
                }
                if v.recorded_calls > 0 {
                    v.manual_after_calls = true;
                }
            }
        }
        dedup(&mut worlds);
        // ---- observe all four views
        let s_async = to_st(cb.state().await);
        let s_sync = to_st(cb.state_sync());
        let s_metrics = to_st(cb.metrics().await.state);
        let is_open = cb.is_open();
        if v.steps.len() < 80 {
            v.steps.push(json!({"i": i, "op": op, "t": sim::now(), "admitted": admitted_obs, "state": s_async}));
        }
        if s_sync != s_async || s_metrics != s_async || is_open != (s_async == St::Open) {
            v.violation = Some(format!(
                "step {i} ({op:?}): state views disagree: state()={s_async:?} state_sync()={s_sync:?} metrics().state={s_metrics:?} is_open()={is_open}"
            ));
            return v;
        }
        let before = worlds.len();
        let expect: Vec<St> = worlds.iter().map(|w| w.st).collect();
        worlds.retain(|w| w.st == s_async);
        if worlds.is_empty() {
            v.violation = Some(if before == 0 {
                format!(
                    "step {i} ({op:?}) at t={} ms: inner service {} although the documented machine says the opposite",
                    sim::now(),
                    if admitted_obs == Some(true) { "was called" } else { "was not called" }
                )
            } else {
                format!(
                    "step {i} ({op:?}) at t={} ms: breaker is {s_async:?} but the documented machine is in {:?}",
                    sim::now(),
                    expect
                )
            });
            return v;
        }
        if s_async != last_state {
            v.transitions += 1;
            let win = if cfg.time_based { 1 } else { cfg.size };
            if calls_since_transition > win {
                v.longer_than_window = true;
            }
            calls_since_transition = 0;
            last_state = s_async;
        }
    }
    for (task, msg) in &sim.unexpected_panics {
        v.violation = Some(format!("unexpected panic in task {task}: {msg}"));
    }
    v.classes = seen.lock().unwrap().clone();
    v
}

fn slow_of(cfg: &CbConfig, d: u64) -> bool {
    cfg.slow.map_or(false, |(ms, _)| d > ms)
}

fn push_class(seen: &Arc<Mutex<Vec<&'static str>>>, c: &'static str) {
    let mut s = seen.lock().unwrap();
    if !s.contains(&c) {
        s.push(c);
    }
}

pub fn report_of(case: &CbCase) -> Report {
    let v = run_case(case);
    let mut r = Report::default();
    if let Some(m) = &v.violation {
        r.fail(m.clone());
    }
    r.nontrivial = (v.longer_than_window && v.transitions >= 1) || v.manual_after_calls;
    if v.transitions >= 1 {
        r.class("has_transition");
    }
    if v.transitions >= 3 {
        r.class("three_or_more_transitions");
    }
    if v.longer_than_window {
        r.class("history_longer_than_window_before_transition");
    }
    if v.manual_after_calls {
        r.class("manual_override_after_calls");
    }
    r.class(if case.cfg.time_based {
        "time_based"
    } else {
        "count_based"
    });
    if case.cfg.custom_classifier {
        r.class("custom_classifier");
    }
    if case.cfg.listeners {
        r.class("event_listeners_registered");
    }
    if case.cfg.via_fallback {
        r.class("service_with_fallback");
    }
    if case.cfg.thr100.is_some() {
        r.class("window_of_20_to_100_calls_threshold_in_hundredths");
    }
    if case.cfg.slow.is_some() {
        r.class("slow_detection_on");
    }
    for c in v.classes {
        r.class(c);
    }
    r.trace = json!({ "steps": v.steps });
    r
}

pub struct C04;
impl Property for C04 {
    type Case = CbCase;
    fn id(&self) -> &'static str {
        "C04"
    }
    fn strategy(&self, tier: Tier) -> BoxedStrategy<CbCase> {
        case_strategy(tier)
    }
    fn budget(&self, tier: Tier) -> (u32, usize) {
        match tier {
            Tier::Quick => (50_000, 8),
            Tier::Thorough => (2_000_000, 16),
        }
    }
    fn run(&self, case: &CbCase) -> Report {
        report_of(case)
    }
    fn rule(&self) -> String {
        "proptest-generated configuration (both window types, size 1-12 / duration 20-400 ms, threshold k/20 incl. 0 and 1, minimum calls unset/1-15, permitted 1-5, slow detection off / threshold 5-40 ms with rate k/10, default or custom classifier) and a sequential history of 0-60/400 ops over {call ok / ok-but-bad / error / ignored error with durations zero, short, just below / just above the slow threshold, long; advance by ms, wait-1..wait+2, window-1..window+2, long; force_open; force_closed; reset}; after every op state().await, state_sync(), is_open() and metrics().state must agree and equal the reference model (a set of worlds for: minimum-calls counted in-window vs since-clear, force_open while open restarting the wait or not, force_closed while closed clearing or not), and the inner service is entered iff the model admits.Also generated: event listeners of every kind, and the same history driven through the service returned by with_fallback() (a rejected call then yields the fallback's response). Non-trivial: a transition after more recorded calls than the window holds, or a reset/force op after recorded calls; distinct by hash of the case".into()
    }
    fn assumptions(&self) -> Vec<String> {
        vec![
            "configuration durations are k ms + 0.5 ms so that no comparison falls on a tie; advances are whole ms".into(),
            "sequential histories only (concurrency is C03/C09)".into(),
        ]
    }
}
