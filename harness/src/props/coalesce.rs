//! C11: at most one inner call per key in flight; requests arriving meanwhile share its result and
//! cause no inner call; a dropped or panicking leader fails its waiters promptly with the
//! leader-cancelled error and frees the key; nobody waits for ever.

use crate::gen;
use crate::runner::{Property, Report, Tier};
use crate::sim::{self, Ev, Log, Outcome, Req, Sim, TaskState};
use crate::svc::{Lat, Resp, SErr, Scripted, Step};
use proptest::prelude::*;
use serde::{Deserialize, Serialize};
use serde_json::json;
use std::collections::HashMap;
use tower::{Layer, Service};
use std::sync::Arc;
use tower_resilience_coalesce::{CoalesceError, CoalesceLayer};

#[derive(Clone, Debug, Serialize, Deserialize)]
pub struct CoCaller {
    pub at: u64,
    pub key: u32,
    pub clone: u8,
    /// script used if this request becomes a leader
    pub step: Step,
    pub cancel_after: Option<u64>,
    /// keep the call future alive (un-polled) for this many ms after it has resolved before
    /// dropping it, as a caller holding it in a struct or a select! loop would
    #[serde(default)]
    pub hold_after: Option<u64>,
}

#[derive(Clone, Debug, Serialize, Deserialize)]
pub struct CoCase {
    pub callers: Vec<CoCaller>,
    pub order: Vec<u8>,
    /// when set, the case is a burst of simultaneous arrivals on different OS threads whose
    /// `call()`s are interleaved at the lock acquisitions of the in-flight map (schedule engine)
    #[serde(default)]
    pub burst: Option<Burst>,
    /// right after the last call was made, the layer and every service handle are dropped: only
    /// the request futures are left (`svc.clone().oneshot(req)` spawned on tasks, then the
    /// original goes away)
    #[serde(default)]
    pub drop_services: bool,
    /// instead of a simulated history: clones of one service are hammered from real OS threads
    /// with calls that are dropped again at once (see crate::stress)
    #[serde(default)]
    pub stress: Option<CoStress>,
}

#[derive(Clone, Debug, Serialize, Deserialize)]
pub struct CoStress {
    pub threads: usize,
    pub iters: u32,
    pub nkeys: u32,
}

fn stress_strategy(tier: Tier) -> BoxedStrategy<CoCase> {
    let iters = match tier {
        Tier::Quick => 5_000u32,
        Tier::Thorough => 40_000,
    };
    (2usize..=8, 1u32..=3)
        .prop_map(move |(threads, nkeys)| CoCase {
            callers: vec![],
            order: vec![],
            burst: None,
            drop_services: false,
            stress: Some(CoStress { threads, iters, nkeys }),
        })
        .boxed()
}

/// Real-thread stress: every thread calls (keys in rotation), polls the future once and drops it:
/// leaders and waiters come and go all the time, under contention for the in-flight map. The
/// inner call never completes, so a request only ever ends by being dropped. Oracle, once every
/// thread has finished and dropped everything: each key is free again, i.e. a new request for it
/// starts a fresh inner call.
pub fn run_coalesce_stress(st: &CoStress) -> Report {
    use std::future::Future;
    use std::sync::atomic::{AtomicU64, Ordering};
    use std::sync::Arc;
    let mut r = Report::default();
    let entered: Arc<Vec<AtomicU64>> = Arc::new((0..st.nkeys).map(|_| AtomicU64::new(0)).collect());
    let e2 = entered.clone();
    let inner = tower::service_fn(move |req: Req| {
        e2[req.key as usize].fetch_add(1, Ordering::SeqCst);
        async move {
            futures::future::pending::<()>().await;
            Ok::<Resp, SErr>(Resp { serial: 0, req })
        }
    });
    let layer = CoalesceLayer::new(|r: &Req| crate::props::cache::CKey(r.key));
    let base = layer.layer(inner);
    let (iters, nkeys) = (st.iters, st.nkeys);
    let proto = std::sync::Mutex::new(base.clone());
    let panicked = crate::stress::run_threads(st.threads, move |t| {
        let mut svc = proto.lock().unwrap().clone();
        let waker = futures::task::noop_waker();
        let mut cx = std::task::Context::from_waker(&waker);
        for i in 0..iters {
            let _ = svc.poll_ready(&mut cx);
            let mut f = Box::pin(svc.call(Req {
                id: i,
                key: (t as u32 + i) % nkeys,
                tag: 0,
            }));
            let _ = f.as_mut().poll(&mut cx);
            drop(f);
        }
    });
    let waker = futures::task::noop_waker();
    let mut cx = std::task::Context::from_waker(&waker);
    let mut svc = base.clone();
    for k in 0..st.nkeys {
        let before = entered[k as usize].load(Ordering::SeqCst);
        let _ = svc.poll_ready(&mut cx);
        let mut f = Box::pin(svc.call(Req {
            id: u32::MAX,
            key: k,
            tag: 0,
        }));
        let _ = f.as_mut().poll(&mut cx);
        let after = entered[k as usize].load(Ordering::SeqCst);
        if after != before + 1 && r.violation.is_none() {
            r.fail(format!(
                "{} threads x {} calls (each dropped after one poll) on clones of one service: afterwards nothing is in flight, yet a new request for key {k} started {} inner calls; the key is stuck to a leader that no longer exists",
                st.threads,
                st.iters,
                after - before
            ));
        }
        drop(f);
    }
    if let Some(p) = panicked {
        r.fail(format!("a coalesce call panicked on a stress thread: {p}"));
    }
    r.nontrivial = true;
    r.class("real_thread_stress");
    r.trace = json!({"inner_calls_per_key": entered.iter().map(|e| e.load(Ordering::SeqCst)).collect::<Vec<_>>(), "stress": st});
    r
}

#[derive(Clone, Debug, Serialize, Deserialize)]
pub struct Burst {
    /// key of each request (one thread per request)
    pub keys: Vec<u32>,
    /// inner outcome per key: ok or error
    pub ok: bool,
    /// choices of the baton scheduler (see sched::explore)
    pub schedule: Vec<u8>,
}

fn case_strategy(tier: Tier) -> BoxedStrategy<CoCase> {
    let hi = match tier {
        Tier::Quick => 12usize,
        Tier::Thorough => 24,
    };
    let caller = (
        gen::instant(60),
        0u32..3,
        0u8..3,
        gen::step(60, true),
        prop_oneof![
            4 => Just(None),
            1 => Just(Some(0u64)),
            2 => (1u64..=5).prop_map(|k| Some(k * 10)),
            2 => (1u64..=50).prop_map(Some),
        ],
        prop_oneof![4 => Just(None), 1 => (1u64..=6).prop_map(|k| Some(k * 10)), 1 => (1u64..=70).prop_map(Some)],
    )
        .prop_map(|(at, key, clone, step, cancel_after, hold_after)| CoCaller {
            at,
            key,
            clone,
            step,
            cancel_after,
            hold_after,
        });
    let history = (
        prop::collection::vec(caller, 2..=hi),
        prop::collection::vec(any::<u8>(), 0..=48),
        prop::bool::weighted(0.3),
    )
        .prop_map(|(callers, order, drop_services)| CoCase {
            callers,
            order,
            burst: None,
            drop_services,
            stress: None,
        });
    let burst = (
        prop::collection::vec(prop_oneof![3 => Just(0u32), 1 => 0u32..2], 2..=4),
        any::<bool>(),
        prop_oneof![
            prop::collection::vec(prop_oneof![5 => 0u8..160, 1 => 160u8..=255], 0..=40),
            prop::collection::vec(any::<u8>(), 0..=40),
        ],
    )
        .prop_map(|(keys, ok, schedule)| CoCase {
            callers: vec![],
            order: vec![],
            burst: Some(Burst { keys, ok, schedule }),
            drop_services: false,
            stress: None,
        });
    prop_oneof![12 => history, 1 => burst].boxed()
}

fn map_outcome(r: Result<Resp, CoalesceError<SErr>>) -> Outcome {
    match r {
        Ok(resp) => Outcome::Ok {
            serial: resp.serial,
            req: resp.req,
        },
        Err(CoalesceError::Service(e)) => Outcome::Inner {
            code: e.code,
            serial: e.serial,
        },
        Err(CoalesceError::LeaderCancelled) => Outcome::Layer("LeaderCancelled".into()),
        Err(CoalesceError::RecvError) => Outcome::Layer("RecvError".into()),
    }
}

pub struct Verdict {
    pub violations: Vec<String>,
    pub classes: Vec<&'static str>,
    pub nontrivial: bool,
    pub log: Vec<Ev>,
}

pub fn run_coalesce(case: &CoCase) -> Verdict {
    match &case.burst {
        Some(b) => sim::run_case(burst(b)),
        None => sim::run_case(interp(case)),
    }
}

/// Simultaneous arrivals on different threads. Each thread makes one `call()` on its own clone of
/// the service; the baton scheduler decides, at every acquisition of the in-flight map's mutex
/// (hook: `verif-hooks`), which thread goes on. Afterwards all response futures are driven to
/// completion on this thread. Oracle: per key exactly one inner call was started by the burst,
/// and every request resolves with that call's result.
async fn burst(b: &Burst) -> Verdict {
    let mut violations = vec![];
    let log = Log::new();
    let ok = b.ok;
    let inner = Scripted::new(log.clone(), 1, move |_, _, _| {
        if ok {
            Step::ok(5)
        } else {
            Step::err(5, 3)
        }
    });
    let layer = CoalesceLayer::new(|r: &Req| crate::props::cache::CKey(r.key));
    let base = layer.layer(inner.clone());
    let n = b.keys.len();
    type Fut = std::pin::Pin<Box<dyn std::future::Future<Output = Result<Resp, CoalesceError<SErr>>> + Send>>;
    let slots: Arc<std::sync::Mutex<Vec<Option<Fut>>>> =
        Arc::new(std::sync::Mutex::new((0..n).map(|_| None).collect()));
    let now_ns = crate::vclock::now_ns();
    let bodies: Vec<Box<dyn FnOnce() + Send>> = (0..n)
        .map(|i| {
            let mut svc = base.clone();
            let slots = slots.clone();
            let key = b.keys[i];
            Box::new(move || {
                // this thread's virtual clock starts where the caller's stands
                crate::vclock::advance_ns(now_ns);
                let req = Req {
                    id: i as u32,
                    key,
                    tag: 0xB0B0 + i as u64,
                };
                let _ = svc.poll_ready(&mut std::task::Context::from_waker(
                    futures::task::noop_waker_ref(),
                ));
                let fut: Fut = Box::pin(svc.call(req));
                slots.lock().unwrap()[i] = Some(fut);
            }) as Box<dyn FnOnce() + Send>
        })
        .collect();
    let outcome = crate::sched::explore(bodies, &b.schedule, |_| None);
    if let Some(p) = &outcome.panic {
        violations.push(format!("call() panicked in the burst: {p}"));
    }
    // who started an inner call
    let snap0 = log.snapshot();
    let mut leader_serial: HashMap<u32, Vec<u64>> = HashMap::new();
    for e in &snap0 {
        if let Ev::Enter { serial, req, .. } = e {
            leader_serial.entry(req.key).or_default().push(*serial);
        }
    }
    let mut keys: Vec<u32> = b.keys.clone();
    keys.sort_unstable();
    keys.dedup();
    for k in &keys {
        let started = leader_serial.get(k).map_or(0, |v| v.len());
        let members = b.keys.iter().filter(|x| *x == k).count();
        if started != 1 {
            violations.push(format!(
                "{members} requests for key {k} arrived together on different threads and {started} inner calls were started for that key (schedule {:?})",
                outcome.trace
            ));
        }
    }
    // drive the futures
    let mut sim = Sim::new(log.clone(), vec![]);
    let futs: Vec<Option<Fut>> = std::mem::take(&mut *slots.lock().unwrap());
    let mut task = vec![None; n];
    for (i, f) in futs.into_iter().enumerate() {
        if let Some(f) = f {
            task[i] = Some(sim.spawn_call(f, map_outcome));
        }
    }
    sim.settle().await;
    sim.advance(12).await;
    let snap = log.snapshot();
    if violations.is_empty() {
        for i in 0..n {
            let Some(tk) = task[i] else {
                violations.push(format!("request {i}: call() produced no future"));
                continue;
            };
            let resolve = snap.iter().find_map(|e| match e {
                Ev::Resolve { task, out, .. } if *task == tk => Some(out.clone()),
                _ => None,
            });
            let want = leader_serial[&b.keys[i]][0];
            let good = match &resolve {
                Some(Outcome::Ok { serial, req }) => b.ok && *serial == want && req.key == b.keys[i],
                Some(Outcome::Inner { serial, .. }) => !b.ok && *serial == want,
                _ => false,
            };
            if !good {
                violations.push(format!(
                    "request {i} (key {}) of a burst resolved with {resolve:?}; the one inner call for its key is number {want} ({})",
                    b.keys[i],
                    if b.ok { "ok" } else { "error" }
                ));
            }
        }
    }
    for (t, msg) in &sim.unexpected_panics {
        violations.push(format!("unexpected panic in task {t}: {msg}"));
    }
    let mut classes = vec!["burst_on_threads"];
    if outcome.preemptions > 0 {
        classes.push("burst_with_preemption_between_lock_acquisitions");
    }
    Verdict {
        violations,
        nontrivial: outcome.preemptions > 0 && b.keys.iter().filter(|k| **k == b.keys[0]).count() >= 2,
        classes,
        log: snap,
    }
}

async fn interp(case: &CoCase) -> Verdict {
    let mut violations = vec![];
    let log = Log::new();
    let mut sim = Sim::new(log.clone(), case.order.clone());
    let n = case.callers.len();
    let mut table: HashMap<u32, Vec<Step>> = HashMap::new();
    for (i, c) in case.callers.iter().enumerate() {
        table.insert(i as u32, vec![c.step]);
    }
    let inner = Scripted::from_table(log.clone(), table, Step::ok(0));
    let layer = CoalesceLayer::new(|r: &Req| crate::props::cache::CKey(r.key));
    let base = layer.layer(inner.clone());
    let mut clones: Vec<_> = (0..3).map(|_| base.clone()).collect();
    let mut keep_alive = Some((layer, base));
    let last_arrival = case.callers.iter().map(|c| c.at).max().unwrap_or(0);
    let horizon = case
        .callers
        .iter()
        .map(|c| c.at + c.cancel_after.unwrap_or(0))
        .max()
        .unwrap_or(0)
        + 80
        + case.callers.iter().map(|c| c.hold_after.unwrap_or(0)).max().unwrap_or(0);
    let mut task: Vec<Option<usize>> = vec![None; n];
    let mut call_panicked = vec![false; n];
    for t in 0..=horizon {
        if t > 0 {
            sim.begin_instant().await;
        }
        for (i, c) in case.callers.iter().enumerate() {
            if c.at == t {
                let req = Req {
                    id: i as u32,
                    key: c.key,
                    tag: 0xC0A0 + i as u64,
                };
                let s = &mut clones[(c.clone % 3) as usize];
                let _ = futures::future::poll_fn(|cx| s.poll_ready(cx)).await;
                log.note("call", i as i64, c.key as i64);
                // the inner service may panic inside `call` itself (scripted)
                let fut = match std::panic::catch_unwind(std::panic::AssertUnwindSafe(|| s.call(req))) {
                    Ok(f) => f,
                    Err(p) => {
                        if !p.is::<sim::ScriptedPanic>() {
                            violations.push(format!(
                                "request {i}: unexpected panic inside call(): {}",
                                sim::panic_msg(&p)
                            ));
                        }
                        call_panicked[i] = true;
                        continue;
                    }
                };
                let idx = sim.n_tasks();
                let lg = log.clone();
                let hold = c.hold_after;
                task[i] = Some(sim.spawn(async move {
                    // polled through a reference so that the future object outlives its completion
                    let mut f = Box::pin(fut);
                    let r = f.as_mut().await;
                    lg.push(Ev::Resolve {
                        t: sim::now(),
                        task: idx,
                        out: map_outcome(r),
                    });
                    if let Some(h) = hold {
                        tokio::time::sleep(std::time::Duration::from_millis(h)).await;
                    }
                    drop(f);
                }));
            }
        }
        if case.drop_services && t == last_arrival {
            clones.clear();
            keep_alive = None;
        }
        for (i, c) in case.callers.iter().enumerate() {
            if let (Some(d), Some(tk)) = (c.cancel_after, task[i]) {
                if c.at + d == t && sim.state(tk) == TaskState::Live {
                    sim.cancel(tk);
                }
            }
        }
        sim.settle().await;
    }
    let _ = &keep_alive;

    // ------------------------------------------------ oracle over the log
    let snap = log.snapshot();
    // in-flight inner call per key: key -> serial
    let mut live: HashMap<u32, u64> = HashMap::new();
    // serial -> (leader request, key)
    let mut serial_info: HashMap<u64, (usize, u32)> = HashMap::new();
    // request -> Some(leader serial) if it joined as waiter
    let mut joined: Vec<Option<u64>> = vec![None; n];
    let mut is_leader = vec![false; n];
    // fate of each inner call: (t, kind) kind 0 done-ok 1 done-err 2 dropped 3 panicked
    let mut fate: HashMap<u64, (u64, u8)> = HashMap::new();
    let mut idx = 0;
    while idx < snap.len() {
        match &snap[idx] {
            Ev::Note {
                kind: "call",
                a,
                b,
                t,
            } => {
                let i = *a as usize;
                let key = *b as u32;
                // the inner entry of a leader is synchronous with call(): next log event
                let entered = matches!(snap.get(idx + 1), Some(Ev::Enter { req, .. }) if req.id == i as u32);
                match live.get(&key) {
                    Some(serial) => {
                        joined[i] = Some(*serial);
                        if entered {
                            violations.push(format!(
                                "t={t}: request {i} for key {key} started its own inner call while inner call {serial} for that key was in flight"
                            ));
                        }
                    }
                    None => {
                        is_leader[i] = true;
                        if !entered {
                            violations.push(format!(
                                "t={t}: request {i} for key {key} arrived with no call for that key in flight but did not start one (key still registered?)"
                            ));
                        }
                    }
                }
            }
            Ev::Enter { serial, req, t, .. } => {
                if let Some(other) = live.get(&req.key) {
                    violations.push(format!(
                        "t={t}: inner call {serial} for key {} started while inner call {other} for the same key was in flight",
                        req.key
                    ));
                }
                live.insert(req.key, *serial);
                serial_info.insert(*serial, (req.id as usize, req.key));
            }
            Ev::Done { serial, t, ok } => {
                fate.insert(*serial, (*t, if *ok { 0 } else { 1 }));
                if let Some((_, k)) = serial_info.get(serial) {
                    if live.get(k) == Some(serial) {
                        live.remove(k);
                    }
                }
            }
            Ev::Dropped { serial, t } => {
                fate.insert(*serial, (*t, 2));
                if let Some((_, k)) = serial_info.get(serial) {
                    if live.get(k) == Some(serial) {
                        live.remove(k);
                    }
                }
            }
            Ev::Panicked { serial, t } => {
                fate.insert(*serial, (*t, 3));
                if let Some((_, k)) = serial_info.get(serial) {
                    if live.get(k) == Some(serial) {
                        live.remove(k);
                    }
                }
            }
            _ => {}
        }
        idx += 1;
    }
    let mut waiters_of_cancelled = 0usize;
    let mut waiter_cancelled = false;
    let cancelled_at = |i: usize| -> Option<u64> {
        task[i].and_then(|tk| {
            snap.iter().find_map(|e| match e {
                Ev::Cancel { t, task } if *task == tk => Some(*t),
                _ => None,
            })
        })
    };
    for i in 0..n {
        let Some(tk) = task[i] else { continue };
        let resolve = snap.iter().find_map(|e| match e {
            Ev::Resolve { t, task, out } if *task == tk => Some((*t, out.clone())),
            _ => None,
        });
        let panicked = snap
            .iter()
            .any(|e| matches!(e, Ev::TaskPanic { task, scripted: true, .. } if *task == tk));
        let c = &case.callers[i];
        if let Some(leader_serial) = joined[i] {
            let canc = cancelled_at(i);
            match fate.get(&leader_serial) {
                None => {
                    // leader never finishes within the horizon (scripted never): waiter may still wait
                    if resolve.is_some() {
                        violations.push(format!(
                            "waiter {i} resolved with {:?} although its leader call {leader_serial} is still running",
                            resolve
                        ));
                    }
                }
                Some((ft, kind)) => {
                    if let Some(ct) = canc {
                        if ct <= *ft {
                            waiter_cancelled = true;
                            continue;
                        }
                    }
                    if *kind >= 2 {
                        waiters_of_cancelled += 1;
                    }
                    match &resolve {
                        None => violations.push(format!(
                            "waiter {i} (key {}) never resolved although its leader's call {leader_serial} ended at t={ft} ({})",
                            c.key,
                            ["ok", "error", "dropped", "panicked"][*kind as usize]
                        )),
                        Some((rt, out)) => {
                            if rt != ft {
                                violations.push(format!(
                                    "waiter {i} resolved at t={rt}, its leader's call ended at t={ft}"
                                ));
                            }
                            let good = match (kind, out) {
                                (0, Outcome::Ok { serial, req }) => *serial == leader_serial && req.key == c.key,
                                (1, Outcome::Inner { serial, .. }) => *serial == leader_serial,
                                (2, Outcome::Layer(nm)) | (3, Outcome::Layer(nm)) => nm == "LeaderCancelled",
                                _ => false,
                            };
                            if !good {
                                violations.push(format!(
                                    "waiter {i} (key {}) got {out:?}; its leader's call {leader_serial} ended as {}",
                                    c.key,
                                    ["ok", "error", "dropped", "panicked"][*kind as usize]
                                ));
                            }
                        }
                    }
                }
            }
            // a waiter causes no inner call of its own
            if snap.iter().any(|e| matches!(e, Ev::Enter { req, .. } if req.id == i as u32)) {
                violations.push(format!("waiter {i} caused an inner call of its own"));
            }
        } else if is_leader[i] {
            let own = snap.iter().find_map(|e| match e {
                Ev::Enter { serial, req, .. } if req.id == i as u32 => Some(*serial),
                _ => None,
            });
            if let Some(s) = own {
                match (fate.get(&s), &resolve) {
                    (Some((ft, 0)), Some((rt, Outcome::Ok { serial, req }))) => {
                        if *serial != s || req.id != i as u32 || rt != ft {
                            violations.push(format!("leader {i} got a result that is not its own call's"));
                        }
                    }
                    (Some((ft, 1)), Some((rt, Outcome::Inner { serial, .. }))) => {
                        if *serial != s || rt != ft {
                            violations.push(format!("leader {i} got an error that is not its own call's"));
                        }
                    }
                    (Some((_, 2)), None) | (Some((_, 3)), None) | (None, None) => {}
                    (f, r) => {
                        if !(panicked && matches!(f, Some((_, 3)))) {
                            violations.push(format!(
                                "leader {i}: inner call fate {f:?} but caller outcome {r:?}"
                            ));
                        }
                    }
                }
            }
        }
        // nobody waits forever: at the horizon a live task must depend on a never-ending leader
        if sim.state(tk) == TaskState::Live && resolve.is_none() {
            let dep = joined[i].or_else(|| {
                snap.iter().find_map(|e| match e {
                    Ev::Enter { serial, req, .. } if req.id == i as u32 => Some(*serial),
                    _ => None,
                })
            });
            let excused = dep.map_or(false, |s| {
                !fate.contains_key(&s)
                    && serial_info
                        .get(&s)
                        .map_or(false, |(l, _)| case.callers[*l].step.lat == Lat::Never)
            });
            if !excused {
                violations.push(format!(
                    "request {i} (key {}) is still pending at the end of the horizon",
                    c.key
                ));
            }
        }
    }
    for (task, msg) in &sim.unexpected_panics {
        violations.push(format!("unexpected panic in task {task}: {msg}"));
    }
    let mut classes = vec![];
    if waiters_of_cancelled >= 1 {
        classes.push("waiter_of_cancelled_or_panicked_leader");
    }
    if case.drop_services {
        classes.push("service_handles_dropped_while_calls_in_flight");
    }
    if waiters_of_cancelled >= 2 {
        classes.push("two_or_more_waiters_of_cancelled_leader");
    }
    if waiter_cancelled {
        classes.push("waiter_cancelled");
    }
    if joined.iter().any(|j| j.is_some()) {
        classes.push("coalesced_waiter");
    }
    if fate.values().any(|f| f.1 == 3) {
        classes.push("leader_panic");
    }
    if call_panicked.iter().any(|&p| p) {
        classes.push("panic_inside_inner_call_fn");
    }
    if case.callers.iter().any(|c| c.hold_after.is_some()) {
        classes.push("completed_future_kept_alive");
    }
    Verdict {
        violations,
        nontrivial: waiters_of_cancelled >= 2 || waiter_cancelled,
        classes,
        log: snap,
    }
}

pub struct C11;
impl Property for C11 {
    type Case = CoCase;
    fn id(&self) -> &'static str {
        "C11"
    }
    fn strategy(&self, tier: Tier) -> BoxedStrategy<CoCase> {
        prop_oneof![1000 => case_strategy(tier), 1 => stress_strategy(tier)].boxed()
    }
    fn budget(&self, tier: Tier) -> (u32, usize) {
        match tier {
            Tier::Quick => (150_000, 8),
            Tier::Thorough => (5_000_000, 16),
        }
    }
    fn run(&self, case: &CoCase) -> Report {
        if let Some(st) = &case.stress {
            return run_coalesce_stress(st);
        }
        let v = run_coalesce(case);
        let mut r = Report::default();
        if let Some(m) = v.violations.first() {
            r.fail(m.clone());
        }
        r.nontrivial = v.nontrivial;
        r.classes = v.classes.clone();
        let evs: Vec<_> = v.log.iter().take(60).collect();
        r.trace = json!({ "events": evs, "events_total": v.log.len() });
        r
    }
    fn rule(&self) -> String {
        "proptest-generated histories: 2-12/24 requests over 3 keys on 3 clones, arrival instants, leader scripts (latency 0-60 ms or never; ok/error/panic), cancellation of leaders and waiters (before first poll, later), poll-order choices; virtual clock; about one case in 1000 is instead a real-thread stress (2-8 OS threads x 5000/40000 calls on 1-3 keys, each dropped after one poll; afterwards every key must be free: a new request starts a fresh inner call). Oracle over the event log: per key at most one inner call in flight; a request arriving while its key is in flight starts no inner call and resolves in the instant that call ends with exactly its serial (ok or error), or with LeaderCancelled if the leader was dropped or panicked; a request arriving with the key free starts a call in its arrival instant (also right after a cancelled leader); leaders get their own result; at the horizon only requests depending on a never-ending live leader are pending. Non-trivial: at least two waiters of a leader that is cancelled or panics, or a waiter cancellation; distinct by hash of the case".into()
    }
    fn assumptions(&self) -> Vec<String> {
        vec![
            "waiters busy-wake by design; the simulator treats a future as idle after 3 fruitless polls per instant".into(),
        ]
    }
}
