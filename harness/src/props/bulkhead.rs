//! C01 (never more than max_concurrent_calls in flight) and C07 (capacity is never lost; rejection
//! only by timeout, exactly at the deadline; rejected / cancelled-while-waiting never reach inner).
//! One generated history, one interpreter, two oracles.

use crate::gen;
use crate::runner::{Property, Report, Tier};
use crate::sim::{self, Ev, Log, Outcome, Req, Sim, TaskState};
use crate::svc::{Lat, Out, Scripted, Step};
use proptest::prelude::*;
use serde::{Deserialize, Serialize};
use serde_json::json;
use std::collections::HashMap;
use std::time::Duration;
use tower::{Layer, Service};
use tower_resilience_bulkhead::{BulkheadError, BulkheadLayer, BulkheadServiceError};

#[derive(Clone, Copy, Debug, Serialize, Deserialize, PartialEq)]
pub enum Wait {
    None,
    Zero,
    Ms(u64),
    /// max_wait_duration(Duration::MAX): "wait for ever" written as a duration
    Forever,
    /// max_wait_duration(Duration::ZERO) instead of reject_when_full()
    ZeroDuration,
    /// max_wait_duration(Duration::from_micros(us)), 0 < us < 1000: a wait, however short (on the
    /// whole-millisecond grid the rejection falls on the next instant)
    Micros(u32),
}

#[derive(Clone, Debug, Serialize, Deserialize)]
pub struct Caller {
    pub at: u64,
    pub clone: u8,
    pub svc2: bool,
    pub step: Step,
    /// cancel this many ms after arrival (0 = before the first poll)
    pub cancel_after: Option<u64>,
    /// the call future is created at `at` (poll_ready + call) but first polled this many ms later
    #[serde(default)]
    pub poll_delay: u64,
    /// the handle is additionally polled for readiness this many ms before the call (a ready
    /// handle kept in a pool or balancer until the request comes)
    #[serde(default)]
    pub ready_early: u64,
    /// the call is made the way a wrapping middleware does it: after poll_ready on the handle,
    /// `let clone = h.clone(); let ready = mem::replace(&mut h, clone); ready.call(req)` - the clone
    /// stays behind as the handle for later requests
    #[serde(default)]
    pub swap_idiom: bool,
}

#[derive(Clone, Debug, Serialize, Deserialize)]
pub struct BhCase {
    pub max: usize,
    pub wait: Wait,
    pub clones: u8,
    pub callers: Vec<Caller>,
    pub order: Vec<u8>,
    /// callers keep the resolved response future alive for this long before dropping it
    #[serde(default)]
    pub hold: Option<u64>,
    /// order in which the builder setters are called (see gen::apply_in_order)
    #[serde(default)]
    pub setter_order: u8,
    /// a setter of the same field called earlier with another value, which the later call has to
    /// override: 1 reject_when_full(), 2 max_wait_duration(7 ms), 3 max_concurrent_calls(max + 3)
    #[serde(default)]
    pub decoy: u8,
    /// requests (by index, mod 64) whose handler calls back into the same bulkhead
    #[serde(default)]
    pub nest_mask: u64,
    /// C01 only: instead of a simulated history, clones of one bulkhead are hammered from real OS
    /// threads (the schedule is the operating system's, not generated: a violation seen is real,
    /// a replay re-runs the stress and need not hit the same interleaving)
    #[serde(default)]
    pub stress: Option<Stress>,
    /// every kind of event listener is registered on the layer (listeners observe; nothing else
    /// may depend on their presence)
    #[serde(default)]
    pub listeners: bool,
    /// callers (by index, mod 64) whose task has used up its cooperative budget on other ready
    /// work when it first polls the call future
    #[serde(default)]
    pub starve_mask: u64,
    /// every service is used through one single handle (nothing else refers to the bulkhead)
    #[serde(default)]
    pub single_handle: bool,
    /// at this instant a handle of service 1 (clone index) is polled for readiness and the
    /// wrapped service's check fails once (a transient error of that one handle, which comes
    /// out of the bulkhead's poll_ready); that handle is not used for a call in that instant
    #[serde(default)]
    pub ready_err_at: Option<(u64, u8)>,
    /// the bulkhead is named, and another bulkhead with the same name and max + this many slots
    /// exists (and is alive) next to it: two bulkheads never share anything, whatever they are called
    #[serde(default)]
    pub namesake_extra: Option<usize>,
}

#[derive(Clone, Debug, Serialize, Deserialize)]
pub struct Stress {
    pub max: usize,
    pub threads: usize,
    pub iters: u32,
    /// 0 reject_when_full(), 1 max_wait_duration(0), 2 unbounded waiting (a caller that is not
    /// admitted at its first poll gives up: cancellation while queued)
    pub mode: u8,
    /// slots held for the whole run (so that the threads compete for max - parked slots)
    pub parked: usize,
}

fn stress_strategy(tier: Tier) -> BoxedStrategy<BhCase> {
    let iters = match tier {
        Tier::Quick => 3_000u32,
        Tier::Thorough => 20_000,
    };
    (1usize..=4, 3usize..=8, 0u8..3, 0usize..=3)
        .prop_map(move |(max, threads, mode, parked)| BhCase {
            max,
            wait: Wait::Zero,
            clones: 1,
            callers: vec![],
            order: vec![],
            hold: None,
            setter_order: 0,
            decoy: 0,
            nest_mask: 0,
            listeners: false,
            starve_mask: 0,
            single_handle: false,
            ready_err_at: None,
            namesake_extra: None,
            stress: Some(Stress {
                max,
                threads,
                iters,
                mode,
                parked: parked.min(max - 1),
            }),
        })
        .boxed()
}

/// Real-thread stress: `threads` OS threads each make `iters` calls through their own clone of
/// one bulkhead; the inner service counts the requests inside it (entered, future not yet
/// dropped) and records the peak. Oracle: peak <= max_concurrent_calls.
pub fn run_stress(st: &Stress) -> Report {
    use std::future::Future;
    use std::sync::atomic::{AtomicUsize, Ordering};
    use std::sync::Arc;
    let mut r = Report::default();
    struct Inside(Arc<AtomicUsize>);
    impl Drop for Inside {
        fn drop(&mut self) {
            self.0.fetch_sub(1, Ordering::SeqCst);
        }
    }
    let inside = Arc::new(AtomicUsize::new(0));
    let peak = Arc::new(AtomicUsize::new(0));
    let admitted = Arc::new(AtomicUsize::new(0));
    let (i2, p2, a2) = (inside.clone(), peak.clone(), admitted.clone());
    let inner = tower::service_fn(move |park: bool| {
        let now = i2.fetch_add(1, Ordering::SeqCst) + 1;
        p2.fetch_max(now, Ordering::SeqCst);
        a2.fetch_add(1, Ordering::Relaxed);
        let guard = Inside(i2.clone());
        async move {
            let _guard = guard;
            if park {
                futures::future::pending::<()>().await;
            } else {
                // stay inside for one more poll
                let mut first = true;
                futures::future::poll_fn(move |_| {
                    if std::mem::replace(&mut first, false) {
                        std::task::Poll::Pending
                    } else {
                        std::task::Poll::Ready(())
                    }
                })
                .await;
            }
            Ok::<(), crate::svc::SErr>(())
        }
    });
    let b = BulkheadLayer::builder().max_concurrent_calls(st.max);
    let b = match st.mode {
        0 => b.reject_when_full(),
        1 => b.max_wait_duration(Duration::ZERO),
        _ => b,
    };
    let base = b.build().layer(inner);
    let rt = tokio::runtime::Builder::new_current_thread().enable_time().build().unwrap();
    let waker = futures::task::noop_waker();
    // slots parked for the whole run
    let mut parked = vec![];
    {
        let _g = rt.enter();
        let mut cx = std::task::Context::from_waker(&waker);
        for _ in 0..st.parked {
            let mut s = base.clone();
            let _ = s.poll_ready(&mut cx);
            let mut f = Box::pin(s.call(true));
            let _ = f.as_mut().poll(&mut cx);
            parked.push(f);
        }
    }
    let iters = st.iters;
    let proto = std::sync::Mutex::new(base.clone());
    let panicked = crate::stress::run_threads(st.threads, move |_| {
        let mut svc = proto.lock().unwrap().clone();
        let waker = futures::task::noop_waker();
        let mut cx = std::task::Context::from_waker(&waker);
        for _ in 0..iters {
            if !matches!(svc.poll_ready(&mut cx), std::task::Poll::Ready(Ok(()))) {
                continue;
            }
            let mut f = Box::pin(svc.call(false));
            // first poll: admission (or rejection / queueing) and, if admitted, entry
            if f.as_mut().poll(&mut cx).is_pending() {
                let _ = f.as_mut().poll(&mut cx);
            }
            drop(f);
        }
    });
    let pk = peak.load(Ordering::SeqCst);
    if pk > st.max {
        r.fail(format!(
            "{} threads on clones of one bulkhead ({}): {pk} requests were inside the wrapped service at once, max_concurrent_calls = {} ({} slots parked, {} admissions in total)",
            st.threads,
            ["reject_when_full", "max_wait 0", "unbounded wait, give up when queued"][st.mode as usize % 3],
            st.max,
            st.parked,
            admitted.load(Ordering::Relaxed)
        ));
    }
    if let Some(p) = panicked {
        r.fail(format!("a bulkhead call panicked on a stress thread: {p}"));
    }
    drop(parked);
    r.nontrivial = admitted.load(Ordering::Relaxed) as usize > st.parked + st.threads;
    r.class("real_thread_stress");
    r.trace = json!({"peak_inside": pk, "admissions": admitted.load(Ordering::Relaxed), "stress": st});
    r
}

fn case_strategy(tier: Tier) -> BoxedStrategy<BhCase> {
    let (max_hi, callers_hi) = match tier {
        Tier::Quick => (5usize, 12usize),
        Tier::Thorough => (8, 32),
    };
    let wait = prop_oneof![
        2 => Just(Wait::None),
        2 => Just(Wait::Zero),
        3 => (1u64..=6).prop_map(|k| Wait::Ms(k * 10)),
        2 => (1u64..=80).prop_map(Wait::Ms),
        1 => Just(Wait::Forever),
        1 => Just(Wait::ZeroDuration),
        1 => prop_oneof![Just(1u32), Just(500u32), 1u32..=999].prop_map(Wait::Micros),
    ];
    let caller = (
        gen::instant(80),
        0u8..4,
        prop::bool::weighted(0.15),
        gen::step(120, true),
        prop_oneof![
            5 => Just(None),
            1 => Just(Some(0u64)),
            2 => (1u64..=8).prop_map(|k| Some(k * 10)),
            2 => (1u64..=100).prop_map(Some),
        ],
        prop_oneof![6 => Just(0u64), 1 => 1u64..=3, 1 => (1u64..=3).prop_map(|k| k * 10)],
        (prop_oneof![5 => Just(0u64), 1 => 1u64..=40, 1 => (1u64..=8).prop_map(|k| k * 10)], prop::bool::weighted(0.3)),
    )
        .prop_map(|(at, clone, svc2, step, cancel_after, poll_delay, (ready_early, swap_idiom))| Caller {
            at,
            clone,
            svc2,
            step,
            cancel_after,
            poll_delay,
            ready_early,
            swap_idiom,
        });
    (
        1..=max_hi,
        wait,
        1u8..=4,
        prop::collection::vec(caller, 2..=callers_hi),
        prop::collection::vec(any::<u8>(), 0..=48),
        prop_oneof![3 => Just(None), 1 => (1u64..=40).prop_map(Some)],
        (
            0u8..4,
            prop_oneof![3 => Just(0u8), 1 => 1u8..=3],
            prop_oneof![5 => Just(0u64), 1 => (0u64..64).prop_map(|k| 1 << k), 1 => any::<u64>().prop_map(|m| m & 0xff)],
            prop::bool::weighted(0.3),
            prop_oneof![4 => Just(0u64), 1 => (0u64..64).prop_map(|k| 1 << k), 1 => any::<u64>()],
            prop::bool::weighted(0.15),
            prop_oneof![4 => Just(None), 1 => (gen::instant(80), 0u8..4).prop_map(Some)],
            prop_oneof![4 => Just(None), 1 => (0usize..=3).prop_map(Some)],
        ),
    )
        .prop_map(|(max, wait, clones, callers, order, hold, (setter_order, decoy, nest_mask, listeners, starve_mask, single_handle, ready_err_at, namesake_extra))| BhCase {
            max,
            wait,
            clones,
            callers,
            order,
            hold,
            setter_order,
            decoy,
            nest_mask,
            stress: None,
            listeners,
            starve_mask,
            single_handle,
            ready_err_at,
            namesake_extra,
        })
        .boxed()
}

fn map_outcome(r: Result<crate::svc::Resp, BulkheadServiceError<crate::svc::SErr>>) -> Outcome {
    match r {
        Ok(resp) => Outcome::Ok {
            serial: resp.serial,
            req: resp.req,
        },
        Err(BulkheadServiceError::Inner(e)) => Outcome::Inner {
            code: e.code,
            serial: e.serial,
        },
        Err(BulkheadServiceError::Bulkhead(BulkheadError::Timeout)) => {
            Outcome::Layer("Timeout".into())
        }
        Err(BulkheadServiceError::Bulkhead(BulkheadError::BulkheadFull { .. })) => {
            Outcome::Layer("BulkheadFull".into())
        }
    }
}

const SVC2_BASE: u64 = 1_000_000;

#[derive(Default)]
pub struct Verdict {
    pub c01: Vec<String>,
    pub c07: Vec<String>,
    pub classes: Vec<&'static str>,
    pub nontrivial_c01: bool,
    pub nontrivial_c07: bool,
    pub log: Vec<Ev>,
}

struct CallerRt {
    task: Option<usize>,
    arrived: bool,
    cancelled_at: Option<u64>,
    entered_before_cancel: bool,
}

/// per-service bookkeeping derived from the log
fn in_flight_of(log: &[Ev], svc2: bool) -> i64 {
    let mine = |s: u64| (s >= SVC2_BASE) == svc2;
    let mut n = 0i64;
    for e in log {
        match e {
            Ev::Enter { serial, .. } if mine(*serial) => n += 1,
            Ev::Done { serial, .. } | Ev::Dropped { serial, .. } | Ev::Panicked { serial, .. }
                if mine(*serial) =>
            {
                n -= 1
            }
            _ => {}
        }
    }
    n
}

const NESTED_BASE: u32 = 5000;

type Outer = tower::util::BoxCloneService<Req, crate::svc::Resp, BulkheadServiceError<crate::svc::SErr>>;

/// Inner service that, for the requests selected by `mask`, calls back into the very bulkhead it
/// sits behind (a handler that calls a sibling endpoint of its own service) before it does its
/// own work. The nested request passes through the bulkhead like any other and counts.
const READY_ERR_CODE: u32 = 4_040;

#[derive(Clone)]
struct Nest {
    inner: Scripted,
    outer: std::sync::Arc<std::sync::Mutex<Option<Outer>>>,
    log: Log,
    mask: u64,
    /// armed by the harness: the next readiness check of any handle fails once (a transient
    /// failure of one connection); nothing else about the service changes
    fail_next_ready: std::sync::Arc<std::sync::atomic::AtomicBool>,
}

impl Service<Req> for Nest {
    type Response = crate::svc::Resp;
    type Error = crate::svc::SErr;
    type Future = futures::future::BoxFuture<'static, Result<crate::svc::Resp, crate::svc::SErr>>;

    fn poll_ready(&mut self, cx: &mut std::task::Context<'_>) -> std::task::Poll<Result<(), Self::Error>> {
        if self.fail_next_ready.swap(false, std::sync::atomic::Ordering::SeqCst) {
            return std::task::Poll::Ready(Err(crate::svc::SErr {
                code: READY_ERR_CODE,
                serial: 0,
            }));
        }
        self.inner.poll_ready(cx)
    }

    fn call(&mut self, req: Req) -> Self::Future {
        let nests = req.id < NESTED_BASE && (self.mask >> (req.id % 64)) & 1 == 1;
        let fut = self.inner.call(req.clone());
        if !nests {
            return fut;
        }
        let outer = self.outer.lock().unwrap().clone();
        let log = self.log.clone();
        Box::pin(async move {
            if let Some(mut o) = outer {
                let sub = Req {
                    id: NESTED_BASE + req.id,
                    key: 0,
                    tag: 0x5EED,
                };
                log.note("nested_start", sub.id as i64, 0);
                let r = match futures::future::poll_fn(|cx| o.poll_ready(cx)).await {
                    Ok(()) => o.call(sub).await,
                    Err(e) => Err(e),
                };
                log.note("nested_end", (NESTED_BASE + req.id) as i64, r.is_ok() as i64);
            }
            fut.await
        })
    }
}

/// nested requests that have asked for a slot and neither got into the inner service nor gave up
fn nested_waiting(log: &[Ev]) -> usize {
    log.iter()
        .filter(|e| {
            if let Ev::Note {
                kind: "nested_start",
                a,
                ..
            } = e
            {
                let id = *a as u32;
                !entered(log, id)
                    && !log
                        .iter()
                        .any(|f| matches!(f, Ev::Note { kind: "nested_end", a: b, .. } if *b as u32 == id))
            } else {
                false
            }
        })
        .count()
}

fn v_log_has_nested(log: &Log) -> bool {
    log.with(|l| l.iter().any(|e| matches!(e, Ev::Note { kind: "nested_start", .. })))
}

fn entered(log: &[Ev], id: u32) -> bool {
    log.iter()
        .any(|e| matches!(e, Ev::Enter { req, .. } if req.id == id))
}

pub fn run_bulkhead(case: &BhCase) -> Verdict {
    sim::run_case(interp(case))
}

async fn interp(case: &BhCase) -> Verdict {
    let mut v = Verdict::default();
    let log = Log::new();
    let mut sim = Sim::new(log.clone(), case.order.clone());
    sim.hold_resolved_ms = case.hold;
    let max = case.max as i64;

    let mut table: HashMap<u32, Vec<Step>> = HashMap::new();
    for (i, c) in case.callers.iter().enumerate() {
        table.insert(i as u32, vec![c.step]);
    }
    for i in 0..case.callers.len() {
        table.insert(NESTED_BASE + i as u32, vec![Step::ok(5)]);
    }
    let gate_step = Step {
        lat: Lat::Gate,
        out: Out::Ok,
    };
    let inner1 = Scripted::from_table(log.clone(), table.clone(), gate_step);
    let inner2 = {
        let t = table.clone();
        Scripted::new(log.clone(), SVC2_BASE, move |req, k, _| {
            t.get(&req.id)
                .and_then(|v| v.get(k).or(v.last()))
                .copied()
                .unwrap_or(gate_step)
        })
    };
    let (cfg_max, cfg_wait) = (case.max, case.wait);
    // a namesake: same name, more slots, built first and kept alive to the end
    let _namesake = case.namesake_extra.map(|extra| {
        let l = BulkheadLayer::builder()
            .name("vcheck-bulkhead")
            .max_concurrent_calls(case.max + 1 + extra)
            .build();
        l.layer(Scripted::new(Log::new(), 1, |_, _, _| Step::ok(0)))
    });
    let mut b0 = BulkheadLayer::builder();
    if case.namesake_extra.is_some() {
        b0 = b0.name("vcheck-bulkhead");
    }
    // the wait decoys need a later wait setter that overrides them
    let has_wait_setter = !matches!(case.wait, Wait::None);
    b0 = match case.decoy {
        1 if has_wait_setter => b0.reject_when_full(),
        2 if has_wait_setter => b0.max_wait_duration(Duration::from_millis(7)),
        3 => b0.max_concurrent_calls(case.max + 3),
        _ => b0,
    };
    if case.listeners {
        b0 = b0
            .on_call_permitted(|_| {})
            .on_call_rejected(|_| {})
            .on_call_finished(|_| {})
            .on_call_failed(|_| {});
    }
    let layer = gen::apply_in_order(
        b0,
        vec![
            Box::new(move |b| b.max_concurrent_calls(cfg_max)),
            Box::new(move |b| match cfg_wait {
                Wait::None => b,
                Wait::Zero => b.reject_when_full(),
                Wait::Ms(ms) => b.max_wait_duration(Duration::from_millis(ms)),
                Wait::Forever => b.max_wait_duration(Duration::MAX),
                Wait::ZeroDuration => b.max_wait_duration(Duration::ZERO),
                Wait::Micros(us) => b.max_wait_duration(Duration::from_micros(us as u64)),
            }),
        ],
        case.setter_order,
    )
    .build();
    let outer1: std::sync::Arc<std::sync::Mutex<Option<Outer>>> = Default::default();
    let fail_next_ready: std::sync::Arc<std::sync::atomic::AtomicBool> = Default::default();
    let base1 = layer.layer(Nest {
        inner: inner1.clone(),
        outer: outer1.clone(),
        log: log.clone(),
        mask: case.nest_mask,
        fail_next_ready: fail_next_ready.clone(),
    });
    let base2 = layer.layer(Nest {
        inner: inner2.clone(),
        outer: Default::default(),
        log: log.clone(),
        mask: 0,
        fail_next_ready: Default::default(),
    });
    if case.nest_mask != 0 {
        *outer1.lock().unwrap() = Some(Outer::new(base1.clone()));
    }
    // single_handle: each service exists as exactly one handle (no clone kept anywhere), on which
    // every call of the history is made
    let single = case.single_handle && case.nest_mask == 0;
    let nclones: u8 = if single { 1 } else { case.clones };
    let (mut clones1, mut clones2): (Vec<_>, Vec<_>) = if single {
        (vec![base1], vec![base2])
    } else {
        (
            (0..case.clones).map(|_| base1.clone()).collect(),
            (0..case.clones).map(|_| base2.clone()).collect(),
        )
    };

    let wait_ms: Option<u64> = match case.wait {
        Wait::None | Wait::Forever => None,
        Wait::Zero | Wait::ZeroDuration => Some(0),
        Wait::Ms(ms) => Some(ms),
        Wait::Micros(_) => Some(1),
    };

    let n = case.callers.len();
    let mut rt: Vec<CallerRt> = (0..n)
        .map(|_| CallerRt {
            task: None,
            arrived: false,
            cancelled_at: None,
            entered_before_cancel: false,
        })
        .collect();
    let horizon = case
        .callers
        .iter()
        .map(|c| c.at + c.cancel_after.unwrap_or(0).max(c.poll_delay))
        .max()
        .unwrap_or(0)
        + 130;

    // futures created but not yet handed to the executor (delayed first poll)
    let mut held: Vec<Option<futures::future::BoxFuture<'static, Result<crate::svc::Resp, BulkheadServiceError<crate::svc::SErr>>>>> =
        (0..n).map(|_| None).collect();
    let fp: Vec<u64> = case.callers.iter().map(|c| c.at + c.poll_delay).collect();
    let mut saw_delayed_poll = false;
    let mut saw_ready_early = false;
    let mut saw_ready_err = false;
    let mut saw_full_with_queue = false;
    let mut saw_cancel_queued = false;
    let mut saw_cancel_running = false;
    let mut saw_panic = false;
    let mut saw_release_and_arrival = false;
    let mut saw_timeout = false;

    for t in 0..=horizon {
        if t > 0 {
            sim.begin_instant().await;
        }
        assert_eq!(sim::now(), t);
        // state at the end of the previous instant
        let (prev_if, prev_waiting): ([i64; 2], [usize; 2]) = log.with(|l| {
            let mut w = [0usize; 2];
            for (i, c) in case.callers.iter().enumerate() {
                if let Some(task) = rt[i].task {
                    let resolved = l
                        .iter()
                        .any(|e| matches!(e, Ev::Resolve { task: tk, .. } if *tk == task));
                    if sim.state(task) == TaskState::Live && !entered(l, i as u32) && !resolved {
                        w[c.svc2 as usize] += 1;
                    }
                }
            }
            // nested requests of service 1 queue for a slot like any caller
            w[0] += nested_waiting(l);
            ([in_flight_of(l, false), in_flight_of(l, true)], w)
        });
        // a transient readiness failure of the wrapped service, seen through one handle
        if let Some((when, k)) = case.ready_err_at {
            if when == t {
                fail_next_ready.store(true, std::sync::atomic::Ordering::SeqCst);
                let s = &mut clones1[(k % nclones) as usize];
                let r = futures::future::poll_fn(|cx| s.poll_ready(cx)).await;
                fail_next_ready.store(false, std::sync::atomic::Ordering::SeqCst);
                saw_ready_err = true;
                let passed_through = matches!(&r, Err(BulkheadServiceError::Inner(e)) if e.code == READY_ERR_CODE);
                if !passed_through {
                    v.c07.push(format!(
                        "t={t}: the wrapped service's readiness check failed, the bulkhead's poll_ready returned {:?} instead of that error",
                        r.map_err(|e| e.to_string())
                    ));
                }
            }
        }
        // handles polled for readiness ahead of their call
        for c in case.callers.iter() {
            if c.ready_early > 0 && c.at > 0 && c.at.saturating_sub(c.ready_early) == t && c.at != t {
                let k = (c.clone % nclones) as usize;
                let s = if c.svc2 { &mut clones2[k] } else { &mut clones1[k] };
                let _ = futures::future::poll_fn(|cx| s.poll_ready(cx)).await;
                saw_ready_early = true;
            }
        }
        // arrivals
        let mut arrivals_now: [Vec<usize>; 2] = [vec![], vec![]];
        for (i, c) in case.callers.iter().enumerate() {
            if c.at == t {
                let req = Req {
                    id: i as u32,
                    key: 0,
                    tag: 0xB000 + i as u64,
                };
                let k = (c.clone % nclones) as usize;
                let s = if c.svc2 { &mut clones2[k] } else { &mut clones1[k] };
                let _ = futures::future::poll_fn(|cx| s.poll_ready(cx)).await;
                let swap = c.swap_idiom;
                // Service::call itself must not panic (whatever the configuration)
                let made = std::panic::catch_unwind(std::panic::AssertUnwindSafe(|| {
                    if swap {
                        let fresh = s.clone();
                        let mut ready = std::mem::replace(s, fresh);
                        Box::pin(ready.call(req)) as futures::future::BoxFuture<'static, _>
                    } else {
                        Box::pin(s.call(req)) as futures::future::BoxFuture<'static, _>
                    }
                }));
                let fut = match made {
                    Ok(f) => f,
                    Err(p) => {
                        if !p.is::<sim::ScriptedPanic>() {
                            v.c07.push(format!(
                                "t={t}: Bulkhead::call panicked for caller {i}: {}",
                                sim::panic_msg(&p)
                            ));
                        }
                        continue;
                    }
                };
                held[i] = Some(fut);
                rt[i].arrived = true;
            }
        }
        for (i, c) in case.callers.iter().enumerate() {
            if fp[i] == t {
                if let Some(fut) = held[i].take() {
                    if c.poll_delay > 0 {
                        saw_delayed_poll = true;
                    }
                    let task = sim.spawn_call(fut, map_outcome);
                    if (case.starve_mask >> (i % 64)) & 1 == 1 {
                        sim.starve_first_poll(task);
                    }
                    rt[i].task = Some(task);
                    if c.cancel_after.map_or(true, |d| c.at + d != t) {
                        arrivals_now[c.svc2 as usize].push(i);
                    }
                }
            }
        }
        // cancellations
        for (i, c) in case.callers.iter().enumerate() {
            // dropped before it was ever polled
            if let Some(d) = c.cancel_after {
                if c.at + d == t && held[i].is_some() {
                    held[i] = None;
                    rt[i].cancelled_at = Some(t);
                }
            }
            if let (Some(d), Some(task)) = (c.cancel_after, rt[i].task) {
                let resolved = log.with(|l| l.iter().any(|e| matches!(e, Ev::Resolve { task: tk, .. } if *tk == task)));
                if c.at + d == t && sim.state(task) == TaskState::Live && !resolved {
                    let ent = log.with(|l| entered(l, i as u32));
                    rt[i].entered_before_cancel = ent;
                    rt[i].cancelled_at = Some(t);
                    if ent {
                        saw_cancel_running = true;
                    } else if d > 0 {
                        saw_cancel_queued = true;
                    }
                    sim.cancel(task);
                }
            }
        }
        let log_mark = log.len();
        sim.settle().await;

        // ---- per-instant oracles
        let snap = log.snapshot();
        let released_now = snap[log_mark..]
            .iter()
            .any(|e| matches!(e, Ev::Done { .. } | Ev::Dropped { .. } | Ev::Panicked { .. }));
        for svc2 in [false, true] {
            let s = svc2 as usize;
            let inflight = in_flight_of(&snap, svc2);
            if inflight > max {
                v.c01.push(format!(
                    "t={t}: {inflight} calls in flight at quiescence, max_concurrent_calls={max}"
                ));
            }
            // waiting callers of this service
            let mut waiting = vec![];
            for (i, c) in case.callers.iter().enumerate() {
                if c.svc2 != svc2 {
                    continue;
                }
                if let Some(task) = rt[i].task {
                    let resolved = snap
                        .iter()
                        .any(|e| matches!(e, Ev::Resolve { task: tk, .. } if *tk == task));
                    if sim.state(task) == TaskState::Live && !entered(&snap, i as u32) && !resolved {
                        waiting.push(i);
                    }
                }
            }
            if inflight == max && !waiting.is_empty() {
                saw_full_with_queue = true;
            }
            // (b) work conservation
            if inflight < max && !waiting.is_empty() {
                v.c07.push(format!(
                    "t={t}: free capacity ({inflight}/{max} in flight) but callers {waiting:?} are still waiting"
                ));
            }
            // waiting beyond the deadline
            if let Some(w) = wait_ms {
                for &i in &waiting {
                    if t >= fp[i] + w {
                        v.c07.push(format!(
                            "t={t}: caller {i} (created {}, first polled {}) still undecided at/after its deadline (max_wait {w} ms)",
                            case.callers[i].at, fp[i]
                        ));
                    }
                }
            }
            // admitted at once when there is room for every arrival of this instant
            let arr = &arrivals_now[s];
            if !arr.is_empty() {
                if released_now {
                    saw_release_and_arrival = true;
                }
                // nested requests that asked for a slot in this very instant compete with the arrivals
                let nested_now = if svc2 {
                    0
                } else {
                    snap[log_mark..]
                        .iter()
                        .filter(|e| matches!(e, Ev::Note { kind: "nested_start", .. }))
                        .count() as i64
                };
                if prev_waiting[s] == 0 && prev_if[s] + arr.len() as i64 + nested_now <= max {
                    for &i in arr {
                        let ok = snap.iter().any(
                            |e| matches!(e, Ev::Enter { t: te, req, .. } if req.id == i as u32 && *te == t),
                        );
                        if !ok {
                            v.c07.push(format!(
                                "t={t}: caller {i} arrived with free capacity ({} in flight, {} arriving, max {max}) and nobody queued but was not admitted at once",
                                prev_if[s],
                                arr.len()
                            ));
                        }
                    }
                }
            }
        }
        if !v.c01.is_empty() || !v.c07.is_empty() {
            break;
        }
    }

    // ---- whole-history oracles
    let snap = log.snapshot();
    // C01: in-flight bound at every inner entry, per service
    for svc2 in [false, true] {
        let mine = |s: u64| (s >= SVC2_BASE) == svc2;
        let mut nfl = 0i64;
        for e in &snap {
            match e {
                Ev::Enter { serial, t, req, .. } if mine(*serial) => {
                    nfl += 1;
                    if nfl > max {
                        v.c01.push(format!(
                            "t={t}: request {} entered the inner service as call number {nfl} in flight, max_concurrent_calls={max}",
                            req.id
                        ));
                    }
                }
                Ev::Done { serial, .. }
                | Ev::Dropped { serial, .. }
                | Ev::Panicked { serial, .. }
                    if mine(*serial) =>
                {
                    nfl -= 1
                }
                Ev::Panicked { .. } => {}
                _ => {}
            }
        }
    }
    for e in &snap {
        match e {
            Ev::Panicked { .. } => saw_panic = true,
            Ev::Resolve { t, task, out } => {
                let Some(i) = (0..n).find(|&i| rt[i].task == Some(*task)) else {
                    continue;
                };
                let c = &case.callers[i];
                match out {
                    Outcome::Layer(name) => {
                        saw_timeout = true;
                        // (c) rejection only by timeout, exactly at the deadline
                        match wait_ms {
                            None => v.c07.push(format!(
                                "caller {i} rejected with {name} at t={t} although max_wait_duration is unset"
                            )),
                            Some(w) => {
                                if name != "Timeout" {
                                    v.c07.push(format!(
                                        "caller {i} rejected with {name} instead of the bulkhead timeout error"
                                    ));
                                }
                                // deadline counted from the first poll, or from the creation of the
                                // call (it cannot resolve before it is polled): both readings pass
                                if *t != fp[i] + w && *t != fp[i].max(c.at + w) {
                                    v.c07.push(format!(
                                        "caller {i} was created at {} and first polled at {} with max_wait {w} ms but was rejected at t={t}",
                                        c.at, fp[i]
                                    ));
                                }
                            }
                        }
                        // (d) a rejected request never reaches the inner service
                        if entered(&snap, i as u32) {
                            v.c07.push(format!(
                                "caller {i} was rejected but its request reached the inner service"
                            ));
                        }
                    }
                    Outcome::Ok { serial, req } => {
                        // its own inner call
                        let own = snap.iter().any(|e| matches!(e, Ev::Enter { serial: s, req: r, .. } if s == serial && r.id == i as u32));
                        if !own || req.id != i as u32 {
                            v.c07.push(format!(
                                "caller {i} received a response that is not from its own inner call"
                            ));
                        }
                    }
                    Outcome::Inner { serial, .. } => {
                        let own = snap.iter().any(|e| matches!(e, Ev::Enter { serial: s, req: r, .. } if s == serial && r.id == i as u32));
                        if !own {
                            v.c07.push(format!(
                                "caller {i} received an error that is not from its own inner call"
                            ));
                        }
                    }
                    Outcome::Other(_) => {}
                }
            }
            Ev::TaskPanic {
                scripted: false,
                msg,
                task,
                ..
            } => {
                v.c07
                    .push(format!("unexpected panic in caller task {task}: {msg}"));
            }
            _ => {}
        }
    }
    // (d) cancelled while waiting never reaches inner; at most one inner call per request
    for i in 0..n {
        let enters = snap
            .iter()
            .filter(|e| matches!(e, Ev::Enter { req, .. } if req.id == i as u32))
            .count();
        if enters > 1 {
            v.c07
                .push(format!("caller {i} reached the inner service {enters} times"));
        }
        if rt[i].cancelled_at.is_some() && !rt[i].entered_before_cancel && enters > 0 {
            v.c07.push(format!(
                "caller {i} was cancelled while waiting but its request reached the inner service"
            ));
        }
    }

    // ---- probe (C07a): cancel everything, let time pass, then the full capacity must be there
    if v.c01.is_empty() && v.c07.is_empty() {
        for task in sim.live_tasks() {
            sim.cancel(task);
        }
        sim.advance(3).await;
        let snap = log.snapshot();
        for svc2 in [false, true] {
            let inf = in_flight_of(&snap, svc2);
            if inf != 0 {
                // harness invariant: nothing should be running now
                v.c07
                    .push(format!("probe: {inf} inner calls still in flight after every caller was dropped"));
            }
        }
        let t0 = sim::now();
        let mut probe_tasks = vec![];
        for j in 0..=case.max {
            let id = 10_000 + j as u32;
            let req = Req {
                id,
                key: 0,
                tag: id as u64,
            };
            let s = &mut clones1[j % nclones as usize];
            let _ = futures::future::poll_fn(|cx| s.poll_ready(cx)).await;
            let fut = s.call(req);
            probe_tasks.push((id, sim.spawn_call(fut, map_outcome)));
            // the extra caller arrives after the first `max` have been admitted
            if j + 1 == case.max {
                sim.settle().await;
            }
        }
        sim.settle().await;
        let snap = log.snapshot();
        let entered_now = (0..case.max)
            .filter(|&j| {
                snap.iter().any(|e| matches!(e, Ev::Enter { t, req, .. } if req.id == 10_000 + j as u32 && *t == t0))
            })
            .count();
        if entered_now != case.max {
            v.c07.push(format!(
                "probe: after the history only {entered_now} of max_concurrent_calls={} simultaneous calls were admitted",
                case.max
            ));
        }
        if entered(&snap, 10_000 + case.max as u32) {
            v.c01.push(format!(
                "probe: call number {} was admitted while {} gated calls were in flight",
                case.max + 1,
                case.max
            ));
        }
        // let waits expire, open the gate, everything drains
        sim.advance(wait_ms.unwrap_or(0).min(100) + 1).await;
        inner1.shared.open_gate();
        sim.advance(3).await;
        let snap = log.snapshot();
        if in_flight_of(&snap, false) != 0 {
            v.c07
                .push("probe: inner calls still in flight after the gate was opened".to_string());
        }
        let extra = probe_tasks[case.max].1;
        match wait_ms {
            None => {
                if !entered(&snap, 10_000 + case.max as u32) {
                    v.c07.push(
                        "probe: the queued extra caller was not admitted after capacity was released".into(),
                    );
                }
            }
            Some(_) => {
                let rejected = snap.iter().any(|e| matches!(e, Ev::Resolve { task, out: Outcome::Layer(n), .. } if *task == extra && n == "Timeout"));
                if !rejected {
                    v.c07.push(
                        "probe: the extra caller was not rejected with the timeout error at its deadline".into(),
                    );
                }
            }
        }
    }
    for (task, msg) in &sim.unexpected_panics {
        v.c07
            .push(format!("unexpected panic in task {task}: {msg}"));
    }

    if saw_full_with_queue {
        v.classes.push("full_with_queue");
    }
    if saw_cancel_queued {
        v.classes.push("cancel_while_queued");
    }
    if saw_cancel_running {
        v.classes.push("cancel_while_running");
    }
    if saw_panic {
        v.classes.push("inner_panic");
    }
    if saw_release_and_arrival {
        v.classes.push("release_and_arrival_same_instant");
    }
    if saw_timeout {
        v.classes.push("wait_timeout");
    }
    if case.callers.iter().any(|c| c.svc2) {
        v.classes.push("two_services");
    }
    if case.listeners {
        v.classes.push("event_listeners_registered");
    }
    if single {
        v.classes.push("one_handle_per_service_no_clone_alive");
    }
    if saw_ready_err {
        v.classes.push("transient_readiness_error_of_the_wrapped_service");
    }
    if case.namesake_extra.is_some() {
        v.classes.push("another_bulkhead_with_the_same_name_alive");
    }
    if case.starve_mask & ((1u64 << case.callers.len().min(63)) - 1) != 0 {
        v.classes.push("first_poll_with_exhausted_cooperative_budget");
    }
    if sim.order.multi_picks > 0 {
        v.classes.push("poll_order_choice");
    }
    if saw_delayed_poll {
        v.classes.push("first_poll_later_than_call");
    }
    if case.hold.is_some() {
        v.classes.push("resolved_future_kept_alive");
    }
    if saw_ready_early {
        v.classes.push("handle_ready_before_the_call");
    }
    if v_log_has_nested(&log) {
        v.classes.push("handler_calls_back_into_its_own_bulkhead");
    }
    v.nontrivial_c01 = saw_full_with_queue
        && (saw_cancel_queued || saw_cancel_running || saw_panic || saw_release_and_arrival);
    v.nontrivial_c07 = saw_panic || saw_cancel_queued || saw_cancel_running;
    v.log = log.snapshot();
    v
}

fn trace(v: &Verdict) -> serde_json::Value {
    let evs: Vec<_> = v.log.iter().take(60).collect();
    json!({ "events": evs, "events_total": v.log.len() })
}

pub struct C01;
impl Property for C01 {
    type Case = BhCase;
    fn id(&self) -> &'static str {
        "C01"
    }
    fn strategy(&self, tier: Tier) -> BoxedStrategy<BhCase> {
        prop_oneof![600 => case_strategy(tier), 1 => stress_strategy(tier)].boxed()
    }
    fn budget(&self, tier: Tier) -> (u32, usize) {
        match tier {
            Tier::Quick => (120_000, 8),
            Tier::Thorough => (4_000_000, 16),
        }
    }
    fn run(&self, case: &BhCase) -> Report {
        if let Some(st) = &case.stress {
            return run_stress(st);
        }
        let v = run_bulkhead(case);
        let mut r = Report::default();
        if let Some(m) = v.c01.first() {
            r.fail(m.clone());
        }
        r.nontrivial = v.nontrivial_c01;
        r.classes = v.classes.clone();
        r.trace = trace(&v);
        r
    }
    fn rule(&self) -> String {
        "proptest-generated histories (max 1-5/8, max_wait none/zero/finite, 2-12/32 callers on 1-4 clones of up to two independently layered services, arrival instants, inner latency/outcome incl. panic and never, cancellation points, poll-order choices) run on the hand-driven executor under the virtual clock; oracle: in-flight (entered, not finished/failed/panicked/dropped) <= max at every inner entry and every quiescent instant, per service, plus a final probe of max+1 gated calls. About one case in 600 is a real-thread stress instead: 3-8 OS threads make 3000/20000 calls each through clones of one bulkhead (reject_when_full / max_wait 0 / unbounded wait with give-up), 0-3 slots parked, the inner service counts the requests inside it: peak <= max.Also generated: event listeners, one handle per service with no clone alive, first polls on an exhausted cooperative budget, a transient readiness error of the wrapped service seen through one handle. Non-trivial: the case reaches in-flight = max with a further caller queued AND contains a cancellation while queued/running, an inner panic, or a release and an arrival in the same instant; distinct by hash of the case".into()
    }
    fn assumptions(&self) -> Vec<String> {
        vec![
            "simulated histories: single-threaded interleavings (poll order of futures), not preemption inside a poll; the stress cases add real preemption but their schedule is the operating system's (not generated, not replayable step by step)".into(),
            "virtual clock interposed at clock_gettime; tokio timers fire on whole milliseconds".into(),
        ]
    }
}

pub struct C07;
impl Property for C07 {
    type Case = BhCase;
    fn id(&self) -> &'static str {
        "C07"
    }
    fn strategy(&self, tier: Tier) -> BoxedStrategy<BhCase> {
        case_strategy(tier)
    }
    fn budget(&self, tier: Tier) -> (u32, usize) {
        match tier {
            Tier::Quick => (120_000, 8),
            Tier::Thorough => (4_000_000, 16),
        }
    }
    fn run(&self, case: &BhCase) -> Report {
        let v = run_bulkhead(case);
        let mut r = Report::default();
        if let Some(m) = v.c07.first() {
            r.fail(m.clone());
        }
        r.nontrivial = v.nontrivial_c07;
        r.classes = v.classes.clone();
        r.trace = trace(&v);
        r
    }
    fn rule(&self) -> String {
        "same generated histories as C01; oracles: (a) after cancelling everything a probe burst of max gated calls is admitted in one instant and one more is not; (b) at every quiescent instant free capacity implies nobody is waiting, and arrivals that fit are admitted in their arrival instant; (c) rejections carry the Timeout variant and happen exactly max_wait after arrival (never with max_wait unset, in the arrival instant with zero), nobody is undecided at/after its deadline; (d) rejected or cancelled-while-waiting requests never appear in the inner log, responses come from the caller's own inner call. Non-trivial: the history contains an inner panic or a cancellation while queued or while holding a permit (the probe always follows); distinct by hash of the case".into()
    }
    fn assumptions(&self) -> Vec<String> {
        vec![
            "arrival = creation and first poll of the call future in the same instant".into(),
            "ties at one instant (release vs. deadline) accept either outcome".into(),
        ]
    }
}
