//! C19: seeded chaos injection is reproducible, bounded, and injected errors skip the inner call.

use crate::runner::{Property, Report, Tier};
use crate::sim::{self, Ev, Log, Outcome, Req, Sim, TaskState};
use crate::svc::{Resp, SErr, Scripted, Step};
use proptest::prelude::*;
use serde::{Deserialize, Serialize};
use serde_json::json;
use std::time::Duration;
use tower::{Layer, Service};
use tower_resilience_chaos::ChaosLayer;

#[derive(Clone, Debug, Serialize, Deserialize)]
pub struct ChaosCase {
    pub seed: u64,
    /// rates in thousandths (0..=1000)
    pub error_rate: u16,
    pub latency_rate: u16,
    pub min_ms: u64,
    pub max_ms: u64,
    /// per request: gap to the previous arrival (0 = same instant), inner latency, ok
    pub requests: Vec<(u8, u8, bool)>,
    /// bit i (mod 64) set: request i goes through a fresh clone of the service instead of the
    /// original handle (the decisions must not depend on which handle serves a request)
    #[serde(default)]
    pub clone_mask: u64,
    /// set latency rate, bounds and seed on the builder before error_rate/error_fn (which change
    /// the builder's type and copy the fields) instead of after
    #[serde(default)]
    pub settings_first: bool,
    /// max_latency() is called before the final min_latency() (and after an earlier, different
    /// min_latency value): the last value of each bound is the one that counts
    #[serde(default)]
    pub max_first: bool,
    /// the history starts this many microseconds after a millisecond tick of the clock (timers
    /// armed at such instants fire up to 1 ms late; a request that is passed through involves no
    /// timer of the layer's and is not delayed at all)
    #[serde(default)]
    pub clock_offset_us: u32,
    /// request i's response future is first polled this many ms after its call()
    /// (entry i mod len; empty = at once). Injected latency counts from that first poll.
    #[serde(default)]
    pub poll_delays: Vec<u8>,
}

fn rate() -> BoxedStrategy<u16> {
    prop_oneof![2 => Just(0u16), 2 => Just(1000u16), 1 => Just(500u16), 3 => 0u16..=1000].boxed()
}

fn case_strategy(tier: Tier) -> BoxedStrategy<ChaosCase> {
    let max_reqs = match tier {
        Tier::Quick => 60usize,
        Tier::Thorough => 200,
    };
    (
        // "for all seeds": boundary values of the integer type next to arbitrary ones
        prop_oneof![
            1 => Just(0u64),
            1 => Just(1u64),
            1 => Just(u64::MAX),
            1 => Just(1u64 << 32),
            1 => Just(u32::MAX as u64),
            1 => Just(i64::MAX as u64),
            8 => any::<u64>(),
        ],
        rate(),
        rate(),
        // whole milliseconds; now and then bounds of a second and more
        prop_oneof![18 => Just(0u64), 36 => 0u64..=30, 1 => 1000u64..=2500, 1 => Just(1000u64)],
        prop_oneof![18 => Just(0u64), 36 => 0u64..=30, 1 => 1000u64..=2500, 1 => Just(2000u64)],
        prop::collection::vec(
            (prop_oneof![2 => Just(0u8), 1 => 1u8..=5], prop_oneof![2 => Just(0u8), 1 => 0u8..=8], prop::bool::weighted(0.8)),
            1..=max_reqs,
        ),
        (
            prop_oneof![1 => Just(0u64), 1 => Just(u64::MAX), 2 => any::<u64>()],
            any::<bool>(),
            any::<bool>(),
            prop_oneof![4 => Just(0u32), 1 => prop_oneof![Just(1u32), Just(500u32), Just(999u32), 1u32..=999]],
            prop_oneof![3 => Just(vec![]), 1 => prop::collection::vec(prop_oneof![1 => Just(0u8), 1 => 1u8..=40], 1..=4)],
        ),
    )
        .prop_map(|(seed, error_rate, latency_rate, min_ms, max_ms, mut requests, (clone_mask, settings_first, max_first, clock_offset_us, poll_delays))| {
            if min_ms.max(max_ms) >= 1000 {
                // seconds of injected latency: keep the history short
                requests.truncate(4);
            }
            ChaosCase {
            seed,
            error_rate,
            latency_rate,
            min_ms,
            max_ms,
            requests,
            clone_mask,
            settings_first,
            max_first,
            clock_offset_us,
            poll_delays,
            }
        })
        .boxed()
}

#[derive(Clone, Debug, PartialEq, Serialize)]
struct Obs {
    /// 0 passed, 1 error injected
    injected_error: bool,
    /// ms between arrival and inner entry (injected latency); None if inner never entered
    delay: Option<u64>,
    /// delay announced through on_latency_injected for this request, if any
    announced: Option<u64>,
    /// ms between arrival and resolution
    resolved_after: Option<u64>,
    outcome: String,
}

const INJECTED: u32 = 999;

/// which: 0 = fresh layer built from the seed, 1 = second `.layer()` call on one layer object,
/// 2 = like 0 but requests selected by `clone_mask` go through fresh clones of the service,
/// 3 = like 0 but every response future is polled right after its call() (in the other runs all
/// futures of one instant are created first and polled afterwards, in the same order)
async fn trace(case: &ChaosCase, which: u8) -> (Vec<Obs>, Vec<String>) {
    let mut violations = vec![];
    crate::vclock::advance_ns(case.clock_offset_us as u64 * 1_000);
    let log = Log::new();
    let mut sim = Sim::new(log.clone(), vec![]);
    let reqs = case.requests.clone();
    let inner = Scripted::new(log.clone(), 1, move |req, _, _| {
        let (_, lat, ok) = reqs[req.id as usize];
        if ok {
            Step::ok(lat as u64)
        } else {
            Step::err(lat as u64, 3)
        }
    });
    let announce = {
        let l = log.clone();
        move |d: Duration| l.note("latency_injected", sim::current_task() as i64, d.as_millis() as i64)
    };
    let err_fn = |r: &Req| SErr {
        code: INJECTED,
        serial: r.tag,
    };
    let layer = if case.settings_first {
        ChaosLayer::builder()
            .name("vcheck")
            .latency_rate(case.latency_rate as f64 / 1000.0)
            .min_latency(Duration::from_millis(if case.max_first { 7 } else { case.min_ms }))
            .max_latency(Duration::from_millis(case.max_ms))
            .min_latency(Duration::from_millis(case.min_ms))
            .seed(case.seed)
            .on_latency_injected(announce)
            .error_rate(case.error_rate as f64 / 1000.0)
            .error_fn(err_fn)
            .build()
    } else {
        ChaosLayer::builder()
            .name("vcheck")
            .error_rate(case.error_rate as f64 / 1000.0)
            .error_fn(err_fn)
            .latency_rate(case.latency_rate as f64 / 1000.0)
            .min_latency(Duration::from_millis(if case.max_first { 7 } else { case.min_ms }))
            .max_latency(Duration::from_millis(case.max_ms))
            .min_latency(Duration::from_millis(case.min_ms))
            .seed(case.seed)
            .on_latency_injected(announce)
            .build()
    };
    let mut svc = if which == 1 {
        // the first service built by this layer serves some traffic of its own (through an inner
        // service of its own) before the second one is built and observed
        let other = Scripted::new(Log::new(), 1, |_, _, _| Step::ok(0));
        let mut first = layer.layer(other);
        for k in 0..(1 + case.requests.len() % 4) {
            let _ = futures::future::poll_fn(|cx| first.poll_ready(cx)).await;
            let fut = first.call(Req {
                id: 9_000 + k as u32,
                key: 1,
                tag: 0xCA05_9000 + k as u64,
            });
            let tk = sim.spawn_call(fut, |r: Result<Resp, SErr>| match r {
                Ok(resp) => Outcome::Ok {
                    serial: resp.serial,
                    req: resp.req,
                },
                Err(e) => Outcome::Inner {
                    code: e.code,
                    serial: e.serial,
                },
            });
            sim.settle().await;
            let mut guard = 0;
            while sim.state(tk) == TaskState::Live && guard < 3_000 {
                sim.tick().await;
                guard += 1;
            }
        }
        layer.layer(inner.clone())
    } else {
        layer.layer(inner.clone())
    };
    let n = case.requests.len();
    let mut at = vec![0u64; n];
    let mut acc = 0u64;
    for (i, r) in case.requests.iter().enumerate() {
        acc += r.0 as u64;
        at[i] = acc;
    }
    let t0 = sim::now();
    let pd = |i: usize| -> u64 {
        if case.poll_delays.is_empty() {
            0
        } else {
            case.poll_delays[i % case.poll_delays.len()] as u64
        }
    };
    let horizon = acc + 80 + case.min_ms.max(case.max_ms) + 40;
    let mut task = vec![None; n];
    let mut held: Vec<Option<_>> = (0..n).map(|_| None).collect();
    for t in 0..=horizon {
        if t > 0 {
            sim.begin_instant().await;
        }
        for i in 0..n {
            if at[i] == t {
                let req = Req {
                    id: i as u32,
                    key: 1,
                    tag: 0xCA05_0000 + i as u64,
                };
                let fut = if which == 2 && (case.clone_mask >> (i % 64)) & 1 == 1 {
                    let mut c = svc.clone();
                    let _ = futures::future::poll_fn(|cx| c.poll_ready(cx)).await;
                    c.call(req)
                } else {
                    let _ = futures::future::poll_fn(|cx| svc.poll_ready(cx)).await;
                    svc.call(req)
                };
                held[i] = Some(fut);
            }
            if at[i] + pd(i) == t {
                if let Some(fut) = held[i].take() {
                    task[i] = Some(sim.spawn_call(fut, |r: Result<Resp, SErr>| match r {
                        Ok(resp) => Outcome::Ok {
                            serial: resp.serial,
                            req: resp.req,
                        },
                        Err(e) => Outcome::Inner {
                            code: e.code,
                            serial: e.serial,
                        },
                    }));
                    if which == 3 {
                        sim.settle().await;
                    }
                }
            }
        }
        sim.settle().await;
    }
    let snap = log.snapshot();
    let mut obs = vec![];
    for i in 0..n {
        let tk = task[i].unwrap();
        if sim.state(tk) == TaskState::Live {
            violations.push(format!("request {i} never resolved"));
        }
        let enters: Vec<(u64, u64, Req)> = snap
            .iter()
            .filter_map(|e| match e {
                Ev::Enter { t, serial, req, .. } if req.id == i as u32 => Some((*t, *serial, req.clone())),
                _ => None,
            })
            .collect();
        let resolve = snap.iter().find_map(|e| match e {
            Ev::Resolve { t, task, out } if *task == tk => Some((*t, out.clone())),
            _ => None,
        });
        let injected_error = matches!(&resolve, Some((_, Outcome::Inner { code, .. })) if *code == INJECTED);
        if injected_error {
            if !enters.is_empty() {
                violations.push(format!(
                    "request {i}: an error was injected but the inner service was called"
                ));
            }
            if let Some((rt, Outcome::Inner { serial, .. })) = &resolve {
                if *serial != 0xCA05_0000 + i as u64 {
                    violations.push(format!("request {i}: injected error was built for another request"));
                }
                let _ = rt;
            }
        } else {
            if enters.len() != 1 {
                violations.push(format!(
                    "request {i}: passed through but the inner service was entered {} times",
                    enters.len()
                ));
            } else {
                let (et, serial, rq) = &enters[0];
                if rq.tag != 0xCA05_0000 + i as u64 || rq.key != 1 {
                    violations.push(format!("request {i}: inner service received a different request"));
                }
                let (_, lat, ok) = case.requests[i];
                // completion instant of the inner call as logged by the inner service itself (its
                // own timer may fire a millisecond late on an off-grid clock)
                let done_t = snap
                    .iter()
                    .find_map(|e| match e {
                        Ev::Done { t, serial: s, .. } if s == serial => Some(*t),
                        _ => None,
                    })
                    .unwrap_or(et + lat as u64);
                match &resolve {
                    Some((rt, Outcome::Ok { serial: s, req })) => {
                        if !ok || s != serial || req.id != i as u32 || *rt != done_t {
                            violations.push(format!("request {i}: result is not its own inner result at its completion instant"));
                        }
                    }
                    Some((rt, Outcome::Inner { serial: s, code })) => {
                        if ok || s != serial || *code != 3 || *rt != done_t {
                            violations.push(format!("request {i}: error is not its own inner error at its completion instant"));
                        }
                    }
                    _ => {}
                }
            }
        }
        obs.push(Obs {
            injected_error,
            delay: enters.first().map(|e| (e.0 - t0).saturating_sub(at[i] + pd(i))),
            announced: snap.iter().find_map(|e| match e {
                Ev::Note { kind: "latency_injected", a, b, .. } if *a == tk as i64 => Some(*b as u64),
                _ => None,
            }),
            resolved_after: resolve.as_ref().map(|r| (r.0 - t0).saturating_sub(at[i] + pd(i))),
            outcome: match &resolve {
                Some((_, Outcome::Ok { .. })) => "ok".into(),
                Some((_, Outcome::Inner { code, .. })) => format!("err{code}"),
                other => format!("{other:?}"),
            },
        });
    }
    for (task, msg) in &sim.unexpected_panics {
        violations.push(format!("unexpected panic in task {task}: {msg}"));
    }
    (obs, violations)
}

pub fn run_case(case: &ChaosCase) -> Report {
    let mut r = Report::default();
    let (a, va) = sim::run_case(trace(case, 0));
    let (b, vb) = sim::run_case(trace(case, 0));
    let (c, vc) = sim::run_case(trace(case, 1));
    let (d, vd) = sim::run_case(trace(case, 2));
    let (e, ve) = sim::run_case(trace(case, 3));
    for v in va.into_iter().chain(vb).chain(vc).chain(vd).chain(ve) {
        r.fail(v);
    }
    if a != e {
        let i = (0..a.len()).find(|&i| a[i] != e[i]).unwrap_or(0);
        r.fail(format!(
            "same seed, same requests in the same order, yet the decisions depend on whether a response future is polled right after its call() or after the other calls of that instant were made: request {i} gives {:?} vs {:?}",
            e[i], a[i]
        ));
    }
    if a != d {
        let i = (0..a.len()).find(|&i| a[i] != d[i]).unwrap_or(0);
        r.fail(format!(
            "the decisions depend on which clone of the service serves a request: with requests routed through fresh clones (mask {:#x}) request {i} gives {:?}, through the original handle {:?}",
            case.clone_mask, d[i], a[i]
        ));
    }
    if a != b {
        let i = (0..a.len()).find(|&i| a[i] != b[i]).unwrap_or(0);
        r.fail(format!(
            "two services built from layers with seed {} diverge at request {i}: {:?} vs {:?}",
            case.seed, a[i], b[i]
        ));
    }
    if a != c {
        let i = (0..a.len()).find(|&i| a[i] != c[i]).unwrap_or(0);
        r.fail(format!(
            "two services built by one seeded layer diverge at request {i}: {:?} vs {:?}",
            a[i], c[i]
        ));
    }
    let lo = case.min_ms.min(case.max_ms);
    let hi = case.min_ms.max(case.max_ms);
    let (mut n_err, mut n_lat, mut n_pass) = (0, 0, 0);
    for (i, o) in a.iter().enumerate() {
        if o.injected_error {
            n_err += 1;
            if case.error_rate == 0 {
                r.fail(format!("request {i}: error injected with error rate 0"));
            }
            continue;
        }
        if case.error_rate == 1000 {
            r.fail(format!(
                "request {i}: not failed by the layer although the error rate is 1"
            ));
        }
        let d = o.delay.unwrap_or(0);
        match o.announced {
            Some(ann) => {
                n_lat += 1;
                if case.latency_rate == 0 {
                    r.fail(format!("request {i}: latency injected with latency rate 0"));
                }
                if ann < lo || ann > hi {
                    r.fail(format!(
                        "request {i}: injected latency {ann} ms outside [{lo}, {hi}] ms (min_latency {} ms, max_latency {} ms)",
                        case.min_ms, case.max_ms
                    ));
                }
                let late = (case.clock_offset_us > 0) as u64;
                if d < ann || d > ann + late {
                    r.fail(format!(
                        "request {i}: {ann} ms of latency announced but the inner call started {d} ms after arrival"
                    ));
                }
            }
            None => {
                n_pass += 1;
                if d != 0 {
                    r.fail(format!(
                        "request {i}: no latency injection announced but the inner call started {d} ms after arrival"
                    ));
                }
            }
        }
    }
    r.nontrivial = n_err > 0 && n_lat > 0 && n_pass > 0;
    if n_err > 0 {
        r.class("error_injected");
    }
    if n_lat > 0 {
        r.class("latency_injected");
    }
    if n_pass > 0 {
        r.class("passed_through");
    }
    if case.clock_offset_us > 0 {
        r.class("clock_off_the_millisecond_grid");
    }
    if case.poll_delays.iter().any(|&d| d > 0) {
        r.class("first_poll_later_than_call");
    }
    if case.error_rate == 0 && case.latency_rate == 0 {
        r.class("both_rates_zero");
    }
    if case.error_rate == 1000 {
        r.class("error_rate_one");
    }
    if case.min_ms > case.max_ms {
        r.class("min_greater_than_max");
    }
    if case.requests.iter().skip(1).any(|q| q.0 == 0) {
        r.class("several_calls_before_first_poll");
    }
    if case.clone_mask != 0 {
        r.class("requests_through_fresh_clones");
    }
    r.trace = json!({"first_observations": a.iter().take(12).collect::<Vec<_>>(), "requests": a.len()});
    r
}

pub struct C19;
impl Property for C19 {
    type Case = ChaosCase;
    fn id(&self) -> &'static str {
        "C19"
    }
    fn strategy(&self, tier: Tier) -> BoxedStrategy<ChaosCase> {
        case_strategy(tier)
    }
    fn budget(&self, tier: Tier) -> (u32, usize) {
        match tier {
            Tier::Quick => (120_000, 8),
            Tier::Thorough => (3_000_000, 16),
        }
    }
    fn run(&self, case: &ChaosCase) -> Report {
        run_case(case)
    }
    fn rule(&self) -> String {
        "proptest-generated (seed u64, error rate and latency rate from {0, 0.5, 1, uniform} in thousandths, min/max latency 0-30 whole ms incl. equal and reversed, 1-60/200 requests with arrival gaps 0-5 ms - bursts share an instant -, inner latency 0-8 ms, ok/error). Each case runs four services: two from separately built equally seeded layers, one from a second layer() call of one layer, and one whose requests partly go through fresh clones of the service (generated mask). Oracle: metamorphic - identical per-request (decision, injected delay, resolution instant, outcome) sequences; injected error => no inner entry and the error is built for this request; otherwise inner entered exactly once with the identical request and the caller gets its own result at inner completion; rates 0 => no injection at all; error rate 1 => every call fails, inner never entered; every latency injection announced through the listener lies within [min(min,max), max(min,max)] and equals the observed delay from arrival to inner entry; without an announcement the inner call starts in the arrival instant.Also generated: histories that start off the millisecond grid, response futures first polled 1-40 ms after call() (latency counts from the first poll), and the first service of a layer serving traffic before the second is observed. Non-trivial: the sequence contains an injected error, an injected latency and a pass; distinct by hash of the case".into()
    }
    fn assumptions(&self) -> Vec<String> {
        vec![
            "equal order of first polls on the compared services (arrival order, index order inside one instant)".into(),
            "which requests had latency injected is taken from the on_latency_injected listener (tagged with the polling task) and cross-checked against the observed start of the inner call".into(),
        ]
    }
}
