//! C14: exponential backoff is total, monotone and capped, for the retry backoff types and every
//! ReconnectPolicy built on them; end to end, a reconnect loop survives a long outage.

use crate::runner::{Property, Report, Tier};
use crate::sim::{self, Ev, Log, Outcome, Req, Sim, TaskState};
use crate::svc::{Scripted, Step};
use proptest::prelude::*;
use serde::{Deserialize, Serialize};
use serde_json::json;
use std::panic::{catch_unwind, AssertUnwindSafe};
use std::time::Duration;
use tower::{Layer, Service};
use tower_resilience_reconnect::{ReconnectConfig, ReconnectLayer, ReconnectPolicy};
use tower_resilience_retry::{ExponentialBackoff, ExponentialRandomBackoff, IntervalFunction};

#[derive(Clone, Debug, Serialize, Deserialize)]
pub enum BackoffCase {
    Func {
        /// 0 ExponentialBackoff, 1 ExponentialRandomBackoff, 2 ReconnectPolicy::exponential,
        /// 3 ReconnectPolicy::exponential_random, 4 ReconnectPolicy::fixed, 5 ReconnectPolicy::default
        kind: u8,
        initial_ns: u64,
        /// multiplier in hundredths (100..=1000)
        mult100: u32,
        cap_ns: Option<u64>,
        /// randomization factor in hundredths (0..=100)
        factor100: u8,
        a: u64,
        b: u64,
        /// call max_interval() before multiplier() when building the interval function
        #[serde(default)]
        cap_first: bool,
    },
    EndToEnd {
        /// None: ReconnectLayer::with_defaults(); Some((initial ms, cap ms))
        policy: Option<(u64, u64)>,
        attempts: u32,
    },
    /// a reconnect loop whose policy needs more than 32 doublings to reach its cap (initial delay
    /// in microseconds, cap in seconds): every delay of the loop is compared with
    /// min(initial x 2^k, cap)
    EndToEndLong {
        init_us: u64,
        cap_s: u64,
        attempts: u32,
    },
}

const DAY_NS: u64 = 86_400_000_000_000;

fn attempt_strategy() -> BoxedStrategy<u64> {
    prop_oneof![
        6 => 0u64..=200,
        4 => 0u64..=10_000,
        2 => (0u32..64, -1i64..=1).prop_map(|(k, d)| ((1u128 << k) as i128 + d as i128).max(0) as u64),
        1 => prop_oneof![
            Just(i32::MAX as u64 - 1),
            Just(i32::MAX as u64),
            Just(i32::MAX as u64 + 1),
            Just(u32::MAX as u64),
            Just(u32::MAX as u64 + 1),
            Just(u64::MAX - 1),
            Just(u64::MAX),
        ],
    ]
    .boxed()
}

fn duration_strategy() -> BoxedStrategy<u64> {
    prop_oneof![
        1 => Just(0u64),
        1 => Just(1u64),
        1 => 1u64..=1_000,
        3 => (1u64..=10_000).prop_map(|ms| ms * 1_000_000),
        2 => (1u64..=1_000_000).prop_map(|us| us * 1_000),
        1 => (1u64..=10).prop_map(|d| d * DAY_NS),
        1 => 0u64..=10 * DAY_NS,
        // exact powers of two in seconds (2^-10 s .. 2^14 s): with a power-of-two multiplier the
        // product hits 2^64 s, the f64 image of Duration::MAX, exactly
        1 => (0u32..=24).prop_map(|k| (1_000_000_000u64 << 14) >> k),
    ]
    .boxed()
}

fn cap_strategy() -> BoxedStrategy<Option<u64>> {
    prop_oneof![
        2 => Just(None),
        1 => Just(Some(0u64)),
        3 => (1u64..=60_000).prop_map(|ms| Some(ms * 1_000_000)),
        2 => duration_strategy().prop_map(Some),
        1 => (1u64..=3650).prop_map(|d| Some(d.saturating_mul(DAY_NS))),
        1 => Just(Some(u64::MAX)),
    ]
    .boxed()
}

fn case_strategy(tier: Tier) -> BoxedStrategy<BackoffCase> {
    let func = (
        0u8..6,
        duration_strategy(),
        prop_oneof![2 => Just(100u32), 3 => Just(200u32), 1 => Just(400u32), 1 => Just(800u32), 1 => Just(150u32), 1 => Just(1000u32), 3 => 100u32..=1000],
        cap_strategy(),
        prop_oneof![1 => Just(0u8), 1 => Just(100u8), 1 => Just(50u8), 2 => 0u8..=100],
        attempt_strategy(),
        attempt_strategy(),
        any::<bool>(),
    )
        .prop_map(|(kind, initial_ns, mult100, cap_ns, factor100, a, b, cap_first)| BackoffCase::Func {
            kind,
            initial_ns,
            mult100,
            cap_ns,
            factor100,
            a: a.min(b),
            b: a.max(b),
            cap_first,
        });
    let (e2e_weight, e2e_attempts) = match tier {
        Tier::Quick => (1u32, 400u32),
        Tier::Thorough => (1u32, 20_000u32),
    };
    let e2e = (
        prop_oneof![
            2 => Just(None),
            1 => (prop_oneof![Just(50u64), Just(100u64), Just(200u64)], prop_oneof![Just(1000u64), Just(5000u64)]).prop_map(Some)
        ],
        (e2e_attempts / 2)..=e2e_attempts,
    )
        .prop_map(|(policy, attempts)| BackoffCase::EndToEnd { policy, attempts });
    let e2e_long = (prop_oneof![Just(1u64), Just(2u64), Just(3u64)], 13u64..=30, 35u32..=40).prop_map(|(init_us, tenths, attempts)| {
        BackoffCase::EndToEndLong {
            init_us,
            // the cap lies 1.3-3 times above initial x 2^32
            cap_s: init_us * 4295 * tenths / 10,
            attempts,
        }
    });
    let func_weight = match tier {
        Tier::Quick => 4_000u32,
        Tier::Thorough => 40_000u32,
    };
    prop_oneof![func_weight => func, e2e_weight => e2e, 1 => e2e_long].boxed()
}

fn dur(ns: u64) -> Duration {
    Duration::from_nanos(ns)
}

/// Reference: min(initial * m^a, cap) in f64 seconds; None = not representable as a Duration
/// (only monotonicity and totality are demanded there).
fn reference_secs(initial_ns: u64, m: f64, a: u64) -> f64 {
    if initial_ns == 0 {
        return 0.0;
    }
    let init = initial_ns as f64 / 1e9;
    let p = if m == 1.0 { 1.0 } else { m.powf(a as f64) };
    init * p
}

const DURATION_MAX_SECS: f64 = 1.8446744073709552e19;

fn close(actual: Duration, want_secs: f64) -> bool {
    let a = actual.as_secs_f64();
    (a - want_secs).abs() <= want_secs.abs() * 1e-9 + 2e-9
}

pub fn run_case(case: &BackoffCase) -> Report {
    let mut r = Report::default();
    match case {
        BackoffCase::Func {
            kind,
            initial_ns,
            mult100,
            cap_ns,
            factor100,
            a,
            b,
            cap_first,
        } => {
            let m = *mult100 as f64 / 100.0;
            let f = *factor100 as f64 / 100.0;
            let init = dur(*initial_ns);
            // kinds built through ReconnectPolicy fix multiplier 2 and need a cap
            let (m_eff, cap_eff): (f64, Option<u64>) = match kind {
                0 | 1 => (m, *cap_ns),
                2 | 3 => (2.0, Some(cap_ns.unwrap_or(5_000_000_000))),
                4 => (1.0, None),
                _ => (2.0, Some(5_000_000_000)),
            };
            let init_eff = if *kind == 5 { 100_000_000 } else { *initial_ns };
            let jitter = matches!(kind, 1 | 3);
            let a_us = *a as usize;
            let b_us = *b as usize;
            let eval = |att: usize| -> Result<Duration, String> {
                let res = catch_unwind(AssertUnwindSafe(|| match kind {
                    // setter order is part of the case: max_interval before or after multiplier
                    0 => {
                        let mut e = ExponentialBackoff::new(init);
                        if *cap_first {
                            if let Some(c) = cap_ns {
                                e = e.max_interval(dur(*c));
                            }
                            e = e.multiplier(m);
                        } else {
                            e = e.multiplier(m);
                            if let Some(c) = cap_ns {
                                e = e.max_interval(dur(*c));
                            }
                        }
                        e.next_interval(att)
                    }
                    1 => {
                        let mut e = ExponentialRandomBackoff::new(init, f);
                        if *cap_first {
                            if let Some(c) = cap_ns {
                                e = e.max_interval(dur(*c));
                            }
                            e = e.multiplier(m);
                        } else {
                            e = e.multiplier(m);
                            if let Some(c) = cap_ns {
                                e = e.max_interval(dur(*c));
                            }
                        }
                        e.next_interval(att)
                    }
                    2 => ReconnectPolicy::exponential(init, dur(cap_eff.unwrap()))
                        .delay_for_attempt(att)
                        .expect("exponential policy yields a delay"),
                    3 => ReconnectPolicy::exponential_random(init, dur(cap_eff.unwrap()), f)
                        .delay_for_attempt(att)
                        .expect("exponential_random policy yields a delay"),
                    4 => ReconnectPolicy::fixed(init)
                        .delay_for_attempt(att)
                        .expect("fixed policy yields a delay"),
                    _ => ReconnectPolicy::default()
                        .delay_for_attempt(att)
                        .expect("default policy yields a delay"),
                }));
                res.map_err(|p| sim::panic_msg(&p))
            };
            let mut overflow_or_cap = false;
            let mut vals = vec![];
            for &att in &[a_us, b_us] {
                match eval(att) {
                    Err(msg) => {
                        r.fail(format!(
                            "backoff kind {kind} panicked for attempt {att} (initial {initial_ns} ns, multiplier {m_eff}, cap {cap_eff:?}): {msg}"
                        ));
                        return finish(r, case, true);
                    }
                    Ok(v) => {
                        let want = reference_secs(init_eff, m_eff, att as u64);
                        let cap_s = cap_eff.map(|c| c as f64 / 1e9);
                        let limit = cap_s.unwrap_or(f64::INFINITY);
                        let capped_want = want.min(limit);
                        if want >= limit || want >= DURATION_MAX_SECS || !want.is_finite() {
                            overflow_or_cap = true;
                        }
                        if let Some(c) = cap_eff {
                            let above = if jitter {
                                // jitter is applied to the capped value
                                let max_allowed = (c as f64 / 1e9) * (1.0 + f) * (1.0 + 1e-9) + 4e-9;
                                v.as_secs_f64() > max_allowed
                                    && !(v == Duration::MAX && max_allowed >= DURATION_MAX_SECS * 0.999)
                            } else {
                                v > dur(c)
                            };
                            if above {
                                r.fail(format!(
                                    "backoff kind {kind}: attempt {att} gives {v:?}, above max_interval {:?}{}",
                                    dur(c),
                                    if jitter { " (even with the randomization factor)" } else { "" }
                                ));
                            }
                        }
                        if !jitter {
                            // near the cap either side of the boundary is fine
                            let near_cap = (want - limit).abs() <= limit.abs() * 1e-9 + 2e-9;
                            if capped_want.is_finite() && capped_want < DURATION_MAX_SECS * 0.999 {
                                let ok = close(v, capped_want)
                                    || (near_cap && (close(v, want) || close(v, limit)));
                                if !ok {
                                    r.fail(format!(
                                        "backoff kind {kind}: attempt {att} gives {v:?}, expected min(initial x multiplier^attempt, max_interval) = {capped_want} s (initial {init_eff} ns, multiplier {m_eff}, cap {cap_eff:?})"
                                    ));
                                }
                                if want >= limit * (1.0 + 1e-9) && Some(v) != cap_eff.map(dur) {
                                    r.fail(format!(
                                        "backoff kind {kind}: attempt {att} is past the cap but gives {v:?} instead of exactly max_interval"
                                    ));
                                }
                            }
                        } else {
                            let lo = capped_want * (1.0 - f);
                            let hi = capped_want * (1.0 + f);
                            if capped_want.is_finite() && hi < DURATION_MAX_SECS * 0.999 {
                                let s = v.as_secs_f64();
                                let tol = capped_want.abs() * 2e-9 + 4e-9;
                                if s < lo - tol || s > hi + tol {
                                    r.fail(format!(
                                        "jittered backoff kind {kind}: attempt {att} gives {v:?}, outside [{lo}, {hi}] s around {capped_want} s (factor {f})"
                                    ));
                                }
                            }
                        }
                        vals.push(v);
                    }
                }
            }
            if !jitter && vals.len() == 2 && vals[0] > vals[1] {
                r.fail(format!(
                    "backoff kind {kind} is not monotone: attempt {a} gives {:?} but attempt {b} gives {:?}",
                    vals[0], vals[1]
                ));
            }
            r.class(match kind {
                0 => "ExponentialBackoff",
                1 => "ExponentialRandomBackoff",
                2 => "ReconnectPolicy::exponential",
                3 => "ReconnectPolicy::exponential_random",
                4 => "ReconnectPolicy::fixed",
                _ => "ReconnectPolicy::default",
            });
            if *b > i32::MAX as u64 {
                r.class("attempt_beyond_i32");
            }
            finish(r, case, overflow_or_cap)
        }
        BackoffCase::EndToEndLong {
            init_us,
            cap_s,
            attempts,
        } => {
            let (violations, log) = sim::run_case(e2e_long(*init_us, *cap_s, *attempts));
            for v in violations {
                r.fail(v);
            }
            r.class("end_to_end_reconnect_outage_past_32_doublings");
            r.nontrivial = true;
            let evs: Vec<_> = log.iter().rev().take(12).collect();
            r.trace = json!({"last_events": evs, "events_total": log.len()});
            r
        }
        BackoffCase::EndToEnd { policy, attempts } => {
            let (violations, log) = sim::run_case(e2e(*policy, *attempts));
            for v in violations {
                r.fail(v);
            }
            r.class("end_to_end_reconnect_outage");
            r.nontrivial = true;
            let evs: Vec<_> = log.iter().take(12).collect();
            r.trace = json!({"first_events": evs, "events_total": log.len()});
            r
        }
    }
}

fn finish(mut r: Report, case: &BackoffCase, nontrivial: bool) -> Report {
    r.nontrivial = nontrivial;
    if nontrivial {
        r.class("product_overflows_or_exceeds_cap");
    }
    r.trace = json!({ "case": format!("{case:?}") });
    r
}

async fn e2e(policy: Option<(u64, u64)>, attempts: u32) -> (Vec<String>, Vec<Ev>) {
    let mut violations = vec![];
    let log = Log::new();
    let mut sim = Sim::new(log.clone(), vec![]);
    let inner = Scripted::new(log.clone(), 1, |_, _, _| Step::err(0, 2));
    let (layer, cap_ms, step) = match policy {
        None => (ReconnectLayer::with_defaults(), 5000u64, 50u64),
        Some((init, cap)) => (
            ReconnectLayer::new(
                ReconnectConfig::builder()
                    .policy(ReconnectPolicy::exponential(
                        Duration::from_millis(init),
                        Duration::from_millis(cap),
                    ))
                    .unlimited_attempts()
                    .build(),
            ),
            cap,
            50u64,
        ),
    };
    let mut svc = layer.layer(inner.clone());
    let _ = futures::future::poll_fn(|cx| svc.poll_ready(cx)).await;
    let fut = svc.call(Req {
        id: 0,
        key: 0,
        tag: 0,
    });
    let task = sim.spawn_call(fut, |r| match r {
        Ok(_) => Outcome::Other("ok".into()),
        Err(e) => Outcome::Other(format!("{e}")),
    });
    sim.settle().await;
    let mut guard = 0u64;
    while (inner.shared.calls() as u32) < attempts && sim.state(task) == TaskState::Live {
        crate::vclock::advance_ms(step);
        sim.settle().await;
        guard += 1;
        if guard > attempts as u64 * (cap_ms / step + 2) + 1000 {
            violations.push(format!(
                "reconnect loop made only {} attempts in {} ms of outage",
                inner.shared.calls(),
                sim::now()
            ));
            break;
        }
    }
    let snap = log.snapshot();
    for e in &snap {
        if let Ev::TaskPanic { msg, t, .. } = e {
            violations.push(format!(
                "reconnect future panicked after {t} ms of outage ({} attempts): {msg}",
                inner.shared.calls()
            ));
        }
        if let Ev::Resolve { t, out, .. } = e {
            violations.push(format!(
                "reconnect with unlimited attempts gave up at t={t} ms: {out:?}"
            ));
        }
    }
    let enters: Vec<u64> = snap
        .iter()
        .filter_map(|e| match e {
            Ev::Enter { t, .. } => Some(*t),
            _ => None,
        })
        .collect();
    let mut prev_gap = 0u64;
    for w in enters.windows(2) {
        let gap = w[1] - w[0];
        if gap < prev_gap {
            violations.push(format!(
                "delay between reconnect attempts decreased from {prev_gap} ms to {gap} ms at t={}",
                w[1]
            ));
            break;
        }
        if gap > cap_ms {
            violations.push(format!(
                "delay between reconnect attempts is {gap} ms at t={}, above the cap {cap_ms} ms",
                w[1]
            ));
            break;
        }
        prev_gap = gap;
    }
    (violations, snap)
}

/// See `BackoffCase::EndToEndLong`.
async fn e2e_long(init_us: u64, cap_s: u64, attempts: u32) -> (Vec<String>, Vec<Ev>) {
    let mut violations = vec![];
    let log = Log::new();
    let mut sim = Sim::new(log.clone(), vec![]);
    let inner = Scripted::new(log.clone(), 1, |_, _, _| Step::err(0, 2));
    let layer = ReconnectLayer::new(
        ReconnectConfig::builder()
            .policy(ReconnectPolicy::exponential(
                Duration::from_micros(init_us),
                Duration::from_secs(cap_s),
            ))
            .unlimited_attempts()
            .build(),
    );
    let mut svc = layer.layer(inner.clone());
    let _ = futures::future::poll_fn(|cx| svc.poll_ready(cx)).await;
    let fut = svc.call(Req {
        id: 0,
        key: 0,
        tag: 0,
    });
    let task = sim.spawn_call(fut, |r| match r {
        Ok(_) => Outcome::Other("ok".into()),
        Err(e) => Outcome::Other(format!("{e}")),
    });
    sim.settle().await;
    // expected delay (ms, rounded down) before the retry that follows k failures, under either
    // numbering of attempts
    let expected_ms = |k: u32| -> (u64, u64) {
        let cap_ms = cap_s as u128 * 1000;
        let f = |e: u32| -> u64 { ((init_us as u128).saturating_mul(1u128 << e.min(100)) / 1000).min(cap_ms) as u64 };
        (f(k), f(k + 1))
    };
    let mut steps: Vec<u64> = vec![];
    let mut guard = 0u64;
    while (inner.shared.calls() as u32) < attempts && sim.state(task) == TaskState::Live {
        let k = (inner.shared.calls() as u32).saturating_sub(1);
        let step = (expected_ms(k).0 / 64).max(1);
        while steps.len() <= k as usize {
            steps.push(step);
        }
        crate::vclock::advance_ms(step);
        sim.settle().await;
        guard += 1;
        if guard > attempts as u64 * 400 + 10_000 {
            violations.push(format!(
                "reconnect loop made only {} attempts in {} ms of outage",
                inner.shared.calls(),
                sim::now()
            ));
            break;
        }
    }
    let snap = log.snapshot();
    for e in &snap {
        if let Ev::TaskPanic { msg, t, .. } = e {
            violations.push(format!("reconnect future panicked after {t} ms of outage: {msg}"));
        }
        if let Ev::Resolve { t, out, .. } = e {
            violations.push(format!("reconnect with unlimited attempts gave up at t={t} ms: {out:?}"));
        }
    }
    let enters: Vec<u64> = snap
        .iter()
        .filter_map(|e| match e {
            Ev::Enter { t, .. } => Some(*t),
            _ => None,
        })
        .collect();
    for (k, w) in enters.windows(2).enumerate() {
        let gap = w[1] - w[0];
        let (a, b) = expected_ms(k as u32);
        let slack = steps.get(k).copied().unwrap_or(1) + 2;
        let fits = |e: u64| gap + 1 >= e && gap <= e + slack;
        if !fits(a) && !fits(b) {
            violations.push(format!(
                "after {} consecutive failures the loop waited {gap} ms; initial {init_us} us x 2^{k} (or 2^{}) capped at {cap_s} s is {a} ms (or {b} ms)",
                k + 1,
                k + 1
            ));
            break;
        }
    }
    (violations, snap)
}

pub struct C14;
impl Property for C14 {
    type Case = BackoffCase;
    fn id(&self) -> &'static str {
        "C14"
    }
    fn strategy(&self, tier: Tier) -> BoxedStrategy<BackoffCase> {
        case_strategy(tier)
    }
    fn budget(&self, tier: Tier) -> (u32, usize) {
        match tier {
            Tier::Quick => (4_000_000, 8),
            Tier::Thorough => (60_000_000, 16),
        }
    }
    fn run(&self, case: &BackoffCase) -> Report {
        run_case(case)
    }
    fn rule(&self) -> String {
        "proptest-generated (backoff kind in {ExponentialBackoff, ExponentialRandomBackoff, ReconnectPolicy::exponential / exponential_random / fixed / default}, initial 0 ns..10 days, multiplier 1.00-10.00, max_interval none / 0 / ms..years / u64::MAX ns, randomization factor 0-1, attempt pair a<=b from dense 0-10000 plus 2^k+-1, i32::MAX+-1, u32::MAX(+1), usize::MAX(-1)); oracle: no panic; value = min(initial*m^attempt, cap) within 1e-9 relative + 2 ns (independent powf formula), exactly the cap once the product is past it, never above it, f(a) <= f(b); jittered value within [v(1-f), v(1+f)]. Plus end-to-end: ReconnectLayer (defaults or explicit exponential policy, unlimited attempts) against an always-failing service for 200-400 / 10000-20000 attempts of virtual time: never panics or gives up, gaps non-decreasing and <= cap; and a loop whose policy needs more than 32 doublings (initial 1-3 us, cap 1.3-3 x initial x 2^32, 35-40 failures in a row): every gap equals min(initial x 2^k, cap) within the step of the simulation. Non-trivial: the product overflows Duration or exceeds the cap for a drawn attempt, or an end-to-end case; distinct by hash of the case".into()
    }
    fn assumptions(&self) -> Vec<String> {
        vec![
            "where initial*m^attempt is not representable as a Duration and no cap is set, only totality and monotonicity are demanded".into(),
            "within 1e-9 relative of the cap either side of the boundary is accepted".into(),
        ]
    }
}
