pub mod bulkhead;
pub mod ratelimiter;
pub mod breaker_model;
pub mod breaker_conc;
pub mod retry;
pub mod timelimiter;
pub mod backoff;
pub mod hedge;
