pub mod bulkhead;
