//! Virtual process clock: this binary defines `clock_gettime` itself, so `std::time::Instant`,
//! tokio's time driver and every `Instant::now()` in the crates under test read a per-thread counter
//! that only the harness advances. Real time stays reachable through the raw syscall.

use libc::{c_int, clockid_t, timespec};
use std::cell::Cell;

thread_local! {
    static VIRT_NANOS: Cell<u64> = const { Cell::new(0) };
}

/// Monotonic base so that `Instant - Duration` never underflows in code under test.
const BASE_SECS: i64 = 1_000_000;

#[no_mangle]
pub unsafe extern "C" fn clock_gettime(clk: clockid_t, tp: *mut timespec) -> c_int {
    match clk {
        libc::CLOCK_MONOTONIC
        | libc::CLOCK_MONOTONIC_RAW
        | libc::CLOCK_MONOTONIC_COARSE
        | libc::CLOCK_BOOTTIME => {
            let n = VIRT_NANOS.with(|c| c.get());
            (*tp).tv_sec = BASE_SECS + (n / 1_000_000_000) as i64;
            (*tp).tv_nsec = (n % 1_000_000_000) as _;
            0
        }
        _ => libc::syscall(libc::SYS_clock_gettime, clk as libc::c_long, tp) as c_int,
    }
}

/// Virtual nanoseconds since thread start.
pub fn now_ns() -> u64 {
    VIRT_NANOS.with(|c| c.get())
}

pub fn advance_ns(ns: u64) {
    VIRT_NANOS.with(|c| c.set(c.get() + ns));
}

pub fn advance_ms(ms: u64) {
    advance_ns(ms * 1_000_000);
}

/// Real monotonic seconds (raw syscall, bypassing the interposed symbol).
pub fn real_secs() -> f64 {
    let mut ts = timespec {
        tv_sec: 0,
        tv_nsec: 0,
    };
    unsafe {
        libc::syscall(
            libc::SYS_clock_gettime,
            libc::CLOCK_MONOTONIC as libc::c_long,
            &mut ts as *mut timespec,
        );
    }
    ts.tv_sec as f64 + ts.tv_nsec as f64 * 1e-9
}

/// Real sleep that does not depend on the virtual clock.
pub fn real_sleep_ms(ms: u64) {
    let ts = timespec {
        tv_sec: (ms / 1000) as _,
        tv_nsec: ((ms % 1000) * 1_000_000) as _,
    };
    unsafe {
        libc::nanosleep(&ts, std::ptr::null_mut());
    }
}
