//! Virtual process clock: this binary defines `clock_gettime` itself, so `std::time::Instant`,
//! tokio's time driver and every `Instant::now()` in the crates under test read a per-thread counter
//! that only the harness advances. Real time stays reachable through the raw syscall.

use libc::{c_int, clockid_t, timespec};
use std::cell::Cell;

thread_local! {
    static VIRT_NANOS: Cell<u64> = const { Cell::new(0) };
}

/// Monotonic base so that `Instant - Duration` never underflows in code under test.
const BASE_SECS: i64 = 1_000_000;

#[no_mangle]
pub unsafe extern "C" fn clock_gettime(clk: clockid_t, tp: *mut timespec) -> c_int {
    match clk {
        libc::CLOCK_MONOTONIC
        | libc::CLOCK_MONOTONIC_RAW
        | libc::CLOCK_MONOTONIC_COARSE
        | libc::CLOCK_BOOTTIME => {
            let n = VIRT_NANOS.with(|c| c.get());
            (*tp).tv_sec = BASE_SECS + (n / 1_000_000_000) as i64;
            (*tp).tv_nsec = (n % 1_000_000_000) as _;
            0
        }
        _ => libc::syscall(libc::SYS_clock_gettime, clk as libc::c_long, tp) as c_int,
    }
}

/// Virtual nanoseconds since thread start.
pub fn now_ns() -> u64 {
    VIRT_NANOS.with(|c| c.get())
}

pub fn advance_ns(ns: u64) {
    VIRT_NANOS.with(|c| c.set(c.get() + ns));
}

/// Back to zero. Only between cases, when nothing that holds an `Instant` is alive any more (the
/// counter would otherwise overflow after some five hundred 400-day jumps on one worker thread).
pub fn reset() {
    VIRT_NANOS.with(|c| c.set(0));
}

pub fn advance_ms(ms: u64) {
    advance_ns(ms * 1_000_000);
}

/// Real monotonic seconds (raw syscall, bypassing the interposed symbol).
pub fn real_secs() -> f64 {
    let mut ts = timespec {
        tv_sec: 0,
        tv_nsec: 0,
    };
    unsafe {
        libc::syscall(
            libc::SYS_clock_gettime,
            libc::CLOCK_MONOTONIC as libc::c_long,
            &mut ts as *mut timespec,
        );
    }
    ts.tv_sec as f64 + ts.tv_nsec as f64 * 1e-9
}

/// Real sleep that does not depend on the virtual clock.
pub fn real_sleep_ms(ms: u64) {
    let ts = timespec {
        tv_sec: (ms / 1000) as _,
        tv_nsec: ((ms % 1000) * 1_000_000) as _,
    };
    unsafe {
        libc::nanosleep(&ts, std::ptr::null_mut());
    }
}

/// Verifies that `std::time::Instant` and tokio timers follow the interposed clock and nothing else.
pub fn self_check() -> Result<(), String> {
    let a = std::time::Instant::now();
    real_sleep_ms(3);
    let b = std::time::Instant::now();
    if b != a {
        return Err(format!("Instant moved by {:?} during a real 3 ms sleep", b - a));
    }
    advance_ms(7);
    let c = std::time::Instant::now();
    if c - a != std::time::Duration::from_millis(7) {
        return Err(format!("Instant moved by {:?} after advancing 7 ms", c - a));
    }
    // a tokio sleep fires exactly when the virtual clock reaches its deadline
    let rt = tokio::runtime::Builder::new_current_thread()
        .enable_time()
        .build()
        .map_err(|e| e.to_string())?;
    let fired_at = rt.block_on(async {
        let start = now_ns();
        let mut s = Box::pin(tokio::time::sleep(std::time::Duration::from_millis(25)));
        for _ in 0..200u32 {
            if futures::poll!(s.as_mut()).is_ready() {
                return Some((now_ns() - start) / 1_000_000);
            }
            advance_ms(1);
            tokio::task::yield_now().await;
        }
        None
    });
    match fired_at {
        Some(25) => Ok(()),
        other => Err(format!("a 25 ms tokio sleep fired after {other:?} virtual ms")),
    }
}
