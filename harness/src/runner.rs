//! Generic driver: proptest generation from a fixed seed, parallel workers, shrinking, replay
//! files, evidence, known-finding handling, watchdog.

use crate::vclock;
use proptest::strategy::{BoxedStrategy, Strategy, ValueTree};
use proptest::test_runner::{Config, RngAlgorithm, TestCaseError, TestError, TestRng, TestRunner};
use serde::de::DeserializeOwned;
use serde::Serialize;
use serde_json::{json, Value};
use std::cell::RefCell;
use std::collections::hash_map::DefaultHasher;
use std::collections::{BTreeMap, HashSet};
use std::fmt::Debug;
use std::hash::{Hash, Hasher};
use std::panic::{catch_unwind, AssertUnwindSafe};
use std::sync::atomic::{AtomicBool, Ordering};
use std::sync::Mutex;

#[derive(Clone, Copy, Debug, PartialEq, Eq)]
pub enum Tier {
    Quick,
    Thorough,
}

impl Tier {
    pub fn name(self) -> &'static str {
        match self {
            Tier::Quick => "quick",
            Tier::Thorough => "thorough",
        }
    }
}

#[derive(Default)]
pub struct Report {
    /// Some(description) when the case violates the property.
    pub violation: Option<String>,
    /// If the violation matches a recorded known finding: its signature.
    pub known: Option<String>,
    pub nontrivial: bool,
    pub classes: Vec<&'static str>,
    /// Rendering of what happened (event log etc.), used for samples and replay files.
    pub trace: Value,
}

impl Report {
    pub fn fail(&mut self, msg: impl Into<String>) {
        if self.violation.is_none() {
            self.violation = Some(msg.into());
        }
    }
    pub fn class(&mut self, c: &'static str) {
        if !self.classes.contains(&c) {
            self.classes.push(c);
        }
    }
}

pub trait Property: Sync {
    type Case: Clone + Debug + Serialize + DeserializeOwned + Send + 'static;
    fn id(&self) -> &'static str;
    fn strategy(&self, tier: Tier) -> BoxedStrategy<Self::Case>;
    /// (cases, worker threads)
    fn budget(&self, tier: Tier) -> (u32, usize);
    fn run(&self, case: &Self::Case) -> Report;
    fn rule(&self) -> String;
    fn assumptions(&self) -> Vec<String>;
    fn exhaustive(&self) -> bool {
        false
    }
}

pub struct Opts {
    pub tier: Tier,
    pub seed: u64,
    pub replay: Option<String>,
    pub cases: Option<u32>,
    pub threads: Option<usize>,
    pub verif_dir: String,
}

#[derive(Default)]
struct Stats {
    evaluations: u64,
    nontrivial: HashSet<u64>,
    classes: BTreeMap<&'static str, u64>,
    samples: Vec<Value>,
    known: BTreeMap<String, (u64, String)>,
}

fn hash_case<C: Serialize>(c: &C) -> u64 {
    let s = serde_json::to_string(c).unwrap_or_default();
    let mut h = DefaultHasher::new();
    s.hash(&mut h);
    h.finish()
}

fn seed_bytes(seed: u64, worker: u64, id: &str) -> [u8; 32] {
    let mut out = [0u8; 32];
    let mut h = DefaultHasher::new();
    (seed, worker, id).hash(&mut h);
    let a = h.finish();
    let mut h2 = DefaultHasher::new();
    (a, 0x9e3779b97f4a7c15u64).hash(&mut h2);
    let b = h2.finish();
    out[..8].copy_from_slice(&seed.to_le_bytes());
    out[8..16].copy_from_slice(&worker.to_le_bytes());
    out[16..24].copy_from_slice(&a.to_le_bytes());
    out[24..].copy_from_slice(&b.to_le_bytes());
    out
}

struct Failure<C> {
    case: C,
    msg: String,
}

pub fn known_findings(verif_dir: &str, id: &str) -> Vec<(String, String)> {
    // entries: {"status":"known","property":"C..","signature":"...","what":"..."}
    let path = format!("{verif_dir}/known-findings.json");
    let Ok(txt) = std::fs::read_to_string(&path) else {
        return vec![];
    };
    let Ok(v) = serde_json::from_str::<Value>(&txt) else {
        eprintln!("known-findings.json does not parse");
        std::process::exit(2);
    };
    let mut out = vec![];
    if let Some(arr) = v.get("findings").and_then(|f| f.as_array()) {
        for e in arr {
            if e.get("status").and_then(|s| s.as_str()) == Some("known")
                && e.get("property").and_then(|s| s.as_str()) == Some(id)
            {
                out.push((
                    e.get("signature")
                        .and_then(|s| s.as_str())
                        .unwrap_or("")
                        .to_string(),
                    e.get("what")
                        .and_then(|s| s.as_str())
                        .unwrap_or("")
                        .to_string(),
                ));
            }
        }
    }
    out
}

fn run_guarded<P: Property>(p: &P, case: &P::Case) -> Report {
    match catch_unwind(AssertUnwindSafe(|| p.run(case))) {
        Ok(r) => r,
        Err(e) => {
            let msg = crate::sim::panic_msg(&e);
            // a panic raised inside the crates under test while the harness called into them
            // directly (Service::call, a builder, an accessor) is the library's failure, not the
            // harness's: every property implies "no panic for valid inputs"
            if let Some(at) = crate::sim::last_panic_location() {
                if at.contains("tower-resilience-") || at.contains("tower_resilience_") {
                    let mut r = Report::default();
                    r.fail(format!("the library panicked at {at}: {msg}"));
                    r.nontrivial = true;
                    return r;
                }
            }
            println!(
                "HARNESS-ERROR property={} panic outside the code under test: {} (at {})\ncase: {}",
                p.id(),
                msg,
                crate::sim::last_panic_location().unwrap_or_default(),
                serde_json::to_string(case).unwrap_or_default()
            );
            std::process::exit(2);
        }
    }
}

pub fn drive<P: Property>(p: &P, opts: &Opts) -> i32 {
    let t_start = vclock::real_secs();
    let id = p.id();
    let known = known_findings(&opts.verif_dir, id);

    // ---- replay mode: plain regression check, no generator
    if let Some(path) = &opts.replay {
        let txt = std::fs::read_to_string(path).unwrap_or_else(|e| {
            eprintln!("cannot read replay file {path}: {e}");
            std::process::exit(2);
        });
        let v: Value = serde_json::from_str(&txt).unwrap_or_else(|e| {
            eprintln!("replay file does not parse: {e}");
            std::process::exit(2);
        });
        let case: P::Case = serde_json::from_value(v.get("case").cloned().unwrap_or(v.clone()))
            .unwrap_or_else(|e| {
                eprintln!("replay case does not decode: {e}");
                std::process::exit(2);
            });
        let rep = run_guarded(p, &case);
        if std::env::var_os("VCHECK_TRACE").is_some() {
            println!("{}", serde_json::to_string_pretty(&rep.trace).unwrap_or_default());
        }
        return match rep.violation {
            Some(msg) => {
                if let Some(sig) = &rep.known {
                    if let Some((_, what)) = known.iter().find(|(s, _)| s == sig) {
                        println!("KNOWN-FINDING: property={id} {what}");
                        return 0;
                    }
                }
                println!("replayed violation: {msg}");
                println!("VIOLATION property={id} replay={path}");
                1
            }
            None => {
                println!("replay of {path}: property held");
                0
            }
        };
    }

    // ---- regression tier: saved minimal cases of earlier findings, replayed without the generator
    let mut regress_run = 0usize;
    if let Ok(rd) = std::fs::read_dir(format!("{}/regress", opts.verif_dir)) {
        let mut files: Vec<_> = rd
            .filter_map(|e| e.ok())
            .map(|e| e.path())
            .filter(|p| {
                p.file_name()
                    .and_then(|n| n.to_str())
                    .map_or(false, |n| n.starts_with(&format!("{id}-")) && n.ends_with(".json"))
            })
            .collect();
        files.sort();
        for f in files {
            let Ok(txt) = std::fs::read_to_string(&f) else { continue };
            let Ok(v) = serde_json::from_str::<Value>(&txt) else {
                println!("HARNESS-ERROR regress file {} does not parse", f.display());
                return 2;
            };
            let case: P::Case = match serde_json::from_value(v.get("case").cloned().unwrap_or(v.clone())) {
                Ok(c) => c,
                Err(e) => {
                    println!("HARNESS-ERROR regress file {} does not decode: {e}", f.display());
                    return 2;
                }
            };
            regress_run += 1;
            let rep = run_guarded(p, &case);
            if let Some(msg) = rep.violation {
                let listed = rep
                    .known
                    .as_ref()
                    .map_or(false, |sig| known.iter().any(|(s, _)| s == sig));
                if !listed {
                    println!("regression case {} fails again: {msg}", f.display());
                    println!("VIOLATION property={id} replay={}", f.display());
                    return 1;
                }
            }
        }
    }

    let (cases_default, threads_default) = p.budget(opts.tier);
    let cases = opts.cases.unwrap_or(cases_default).max(1);
    let threads = opts.threads.unwrap_or(threads_default).max(1).min(cases as usize);
    let per_worker = (cases as usize + threads - 1) / threads;

    let stop = AtomicBool::new(false);
    let failure: Mutex<Option<Failure<P::Case>>> = Mutex::new(None);
    let merged: Mutex<Stats> = Mutex::new(Stats::default());

    std::thread::scope(|scope| {
        for w in 0..threads {
            let stop = &stop;
            let failure = &failure;
            let merged = &merged;
            let known = &known;
            let tier = opts.tier;
            let seed = opts.seed;
            std::thread::Builder::new()
                .stack_size(16 << 20)
                .spawn_scoped(scope, move || {
                    let cfg = Config {
                        cases: per_worker as u32,
                        failure_persistence: None,
                        max_shrink_iters: 20_000,
                        max_global_rejects: 1_000_000,
                        max_local_rejects: 1_000_000,
                        ..Config::default()
                    };
                    let rng =
                        TestRng::from_seed(RngAlgorithm::ChaCha, &seed_bytes(seed, w as u64, id));
                    let mut runner = TestRunner::new_with_rng(cfg, rng);
                    let strat = p.strategy(tier);
                    let stats = RefCell::new(Stats::default());
                    let failed = std::cell::Cell::new(false);
                    let res = runner.run(&strat, |case| {
                        if stop.load(Ordering::Relaxed) && !failed.get() {
                            return Ok(());
                        }
                        let rep = run_guarded(p, &case);
                        if !failed.get() {
                            let mut st = stats.borrow_mut();
                            st.evaluations += 1;
                            for c in &rep.classes {
                                *st.classes.entry(c).or_insert(0) += 1;
                            }
                            if rep.nontrivial {
                                let h = hash_case(&case);
                                if st.nontrivial.insert(h) && st.samples.len() < 2 {
                                    st.samples.push(json!({
                                        "case": serde_json::to_value(&case).unwrap_or(Value::Null),
                                        "trace": rep.trace.clone(),
                                    }));
                                }
                            }
                        }
                        if let Some(msg) = rep.violation {
                            if let Some(sig) = &rep.known {
                                if let Some((_, what)) = known.iter().find(|(s, _)| s == sig) {
                                    // recorded finding: counted, excluded from the search
                                    if !failed.get() {
                                        let mut st = stats.borrow_mut();
                                        let e = st
                                            .known
                                            .entry(sig.clone())
                                            .or_insert((0, what.clone()));
                                        e.0 += 1;
                                    }
                                    return Ok(());
                                }
                            }
                            failed.set(true);
                            stop.store(true, Ordering::Relaxed);
                            return Err(TestCaseError::fail(msg));
                        }
                        Ok(())
                    });
                    if let Err(e) = res {
                        match e {
                            TestError::Fail(reason, case) => {
                                let mut f = failure.lock().unwrap();
                                if f.is_none() {
                                    *f = Some(Failure {
                                        case,
                                        msg: reason.message().to_string(),
                                    });
                                }
                            }
                            TestError::Abort(reason) => {
                                println!(
                                    "HARNESS-ERROR property={id} generator aborted: {}",
                                    reason.message()
                                );
                                std::process::exit(2);
                            }
                        }
                    }
                    let st = stats.into_inner();
                    let mut m = merged.lock().unwrap();
                    m.evaluations += st.evaluations;
                    m.nontrivial.extend(st.nontrivial);
                    for (k, v) in st.classes {
                        *m.classes.entry(k).or_insert(0) += v;
                    }
                    for s in st.samples {
                        if m.samples.len() < 4 {
                            m.samples.push(s);
                        }
                    }
                    for (k, (n, what)) in st.known {
                        let e = m.known.entry(k).or_insert((0, what));
                        e.0 += n;
                    }
                })
                .expect("spawn worker");
        }
    });

    let stats = merged.into_inner().unwrap();
    let failure = failure.into_inner().unwrap();
    let wall = vclock::real_secs() - t_start;

    let mut violations = 0;
    let mut replay_path = None;
    if let Some(f) = &failure {
        violations = 1;
        let rep = run_guarded(p, &f.case);
        let body = json!({
            "property": id,
            "seed": opts.seed,
            "tier": opts.tier.name(),
            "message": f.msg,
            "case": serde_json::to_value(&f.case).unwrap_or(Value::Null),
            "trace": rep.trace,
        });
        let txt = serde_json::to_string_pretty(&body).unwrap();
        let mut h = DefaultHasher::new();
        serde_json::to_string(&f.case).unwrap_or_default().hash(&mut h);
        let dir = format!("{}/replays/{}", opts.verif_dir, id);
        let _ = std::fs::create_dir_all(&dir);
        let path = format!("{dir}/{:016x}.json", h.finish());
        std::fs::write(&path, txt).expect("write replay");
        replay_path = Some(path);
    }

    // ---- evidence
    let mut samples = stats.samples.clone();
    if samples.is_empty() {
        samples.push(json!({"note": "no non-trivial case was generated in this run"}));
    }
    let class_hist: BTreeMap<String, u64> = stats
        .classes
        .iter()
        .map(|(k, v)| (k.to_string(), *v))
        .collect();
    let known_hist: BTreeMap<String, u64> =
        stats.known.iter().map(|(k, v)| (k.clone(), v.0)).collect();
    let evidence = json!({
        "property_id": id,
        "tier": opts.tier.name(),
        "seed": opts.seed,
        "level": "exploration",
        "coverage": {
            "evaluations": stats.evaluations,
            "distinct_nontrivial": stats.nontrivial.len(),
            "rule": p.rule(),
            "samples": samples,
            "class_histogram": class_hist,
            "excluded_by_known_finding": known_hist,
            "worker_threads": threads,
            "regression_replays_passed": regress_run,
            "exhaustive": p.exhaustive(),
        },
        "assumptions": p.assumptions(),
        "wall_s": (wall * 1000.0).round() / 1000.0,
        "violations": violations,
    });
    let _ = std::fs::create_dir_all(format!("{}/evidence", opts.verif_dir));
    std::fs::write(
        format!("{}/evidence/{}.json", opts.verif_dir, id),
        serde_json::to_string_pretty(&evidence).unwrap(),
    )
    .expect("write evidence");

    for (_, (n, what)) in &stats.known {
        println!("KNOWN-FINDING: property={id} {what} ({n} generated cases matched and were excluded)");
    }
    println!(
        "{id} {}: {} cases, {} distinct non-trivial, {:.1}s, classes: {}",
        opts.tier.name(),
        stats.evaluations,
        stats.nontrivial.len(),
        wall,
        class_hist
            .iter()
            .map(|(k, v)| format!("{k}={v}"))
            .collect::<Vec<_>>()
            .join(" ")
    );
    if let (Some(f), Some(path)) = (&failure, &replay_path) {
        println!("violation: {}", f.msg);
        println!("minimal case: {}", serde_json::to_string(&f.case).unwrap());
        println!("VIOLATION property={id} replay={path}");
        return 1;
    }
    0
}

/// Aborts the process with exit status 2 if a run exceeds its real-time allowance.
pub fn start_watchdog(limit_s: u64) {
    std::thread::spawn(move || {
        let start = vclock::real_secs();
        loop {
            vclock::real_sleep_ms(500);
            if vclock::real_secs() - start > limit_s as f64 {
                println!("INCONCLUSIVE watchdog: run exceeded {limit_s}s of real time");
                std::process::exit(2);
            }
        }
    });
}

/// Helper used by strategies: draws a value tree once (for enumerations and tests).
#[allow(dead_code)]
pub fn sample_once<S: Strategy>(s: &S, runner: &mut TestRunner) -> S::Value {
    s.new_tree(runner).unwrap().current()
}
