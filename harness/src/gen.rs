//! Shared proptest strategies. All values are whole milliseconds; boundary bias is explicit.

use crate::svc::{Lat, Out, Step};
use proptest::prelude::*;

/// Instants with deliberate collisions: multiples of 10 ms are over-represented.
pub fn instant(max_ms: u64) -> BoxedStrategy<u64> {
    let steps = (max_ms / 10).max(1);
    prop_oneof![
        3 => (0..=steps).prop_map(|k| k * 10),
        2 => 0..=max_ms,
        1 => Just(0u64),
    ]
    .boxed()
}

/// Inner latencies, colliding with `instant` on purpose.
pub fn latency(max_ms: u64) -> BoxedStrategy<Lat> {
    let steps = (max_ms / 10).max(1);
    prop_oneof![
        2 => Just(Lat::Ms(0)),
        4 => (1..=steps).prop_map(|k| Lat::Ms(k * 10)),
        3 => (1..=max_ms).prop_map(Lat::Ms),
        1 => Just(Lat::Never),
        // completes with the task's cooperative budget used up
        1 => (0..=steps).prop_map(|k| Lat::MsDrain(k * 10)),
    ]
    .boxed()
}

pub fn finite_latency(max_ms: u64) -> BoxedStrategy<u64> {
    let steps = (max_ms / 10).max(1);
    prop_oneof![
        2 => Just(0u64),
        4 => (1..=steps).prop_map(|k| k * 10),
        3 => 1..=max_ms,
    ]
    .boxed()
}

pub fn outcome(with_panic: bool) -> BoxedStrategy<Out> {
    if with_panic {
        prop_oneof![
            5 => Just(Out::Ok),
            3 => (1u32..5).prop_map(Out::Err),
            1 => Just(Out::Panic),
            1 => Just(Out::PanicInCall),
        ]
        .boxed()
    } else {
        prop_oneof![
            5 => Just(Out::Ok),
            3 => (1u32..5).prop_map(Out::Err),
        ]
        .boxed()
    }
}

pub fn step(max_ms: u64, with_panic: bool) -> BoxedStrategy<Step> {
    (latency(max_ms), outcome(with_panic))
        .prop_map(|(lat, out)| Step { lat, out })
        .boxed()
}

pub fn order(n: usize) -> BoxedStrategy<Vec<u8>> {
    proptest::collection::vec(any::<u8>(), 0..=n).boxed()
}

/// Applies builder setters in an order chosen by `perm` (0 = as written): rotation by `perm / 2`,
/// reversed when `perm` is odd. Builder setters are documented as order-independent, so every
/// order has to produce the same layer.
pub fn apply_in_order<B>(mut b: B, mut setters: Vec<Box<dyn FnOnce(B) -> B>>, perm: u8) -> B {
    let n = setters.len();
    if n > 1 {
        setters.rotate_left((perm as usize / 2) % n);
        if perm % 2 == 1 {
            setters.reverse();
        }
    }
    for s in setters {
        b = s(b);
    }
    b
}
