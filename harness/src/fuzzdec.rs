//! Byte-level entry points for the coverage-guided fuzz targets (cargo-fuzz / libFuzzer): the bytes
//! are decoded with `arbitrary::Unstructured` into the same case types the proptest generators
//! produce and run through the same interpreters and oracles.

use crate::props::backoff::{self, BackoffCase};
use crate::props::breaker_model::{self, Adv, CbCase, CbConfig, Dur, Op};
use crate::props::cache::{self, CAdv, COp, CacheCase};
use crate::runner::Property;
use arbitrary::{Result, Unstructured};
use std::collections::hash_map::DefaultHasher;
use std::hash::{Hash, Hasher};

pub fn decode_c04(u: &mut Unstructured) -> Result<CbCase> {
    let time_based = u.arbitrary::<bool>()?;
    let slow = if u.arbitrary::<bool>()? {
        Some((u.int_in_range(5u64..=40)?, u.int_in_range(0u8..=10)?))
    } else {
        None
    };
    let cfg = CbConfig {
        time_based,
        size: u.int_in_range(1usize..=12)?,
        window_ms: u.int_in_range(20u64..=400)?,
        thr20: u.int_in_range(0u8..=20)?,
        min: if u.arbitrary::<bool>()? {
            Some(u.int_in_range(1usize..=15)?)
        } else {
            None
        },
        permitted: u.int_in_range(1usize..=5)?,
        wait_ms: u.int_in_range(20u64..=200)?,
        slow,
        custom_classifier: u.arbitrary::<bool>()?,
        idle_slow_rate10: if slow.is_none() && u.arbitrary::<bool>()? {
            Some(u.int_in_range(0u8..=10)?)
        } else {
            None
        },
        wait_huge: if u.int_in_range(0u8..=12)? == 0 {
            u.int_in_range(1u8..=3)?
        } else {
            0
        },
        classifier_first: u.arbitrary::<bool>()?,
        listeners: false,
        via_fallback: false,
        thr100: None,
    };
    let mut ops = vec![];
    while !u.is_empty() && ops.len() < 400 {
        let op = match u.int_in_range(0u8..=21)? {
            0..=13 => {
                let dur = match u.int_in_range(0u8..=9)? {
                    0..=3 => Dur::Zero,
                    4 | 5 => Dur::Short(u.int_in_range(1u8..=4)?),
                    6 => Dur::JustBelow,
                    7 | 8 => Dur::JustAbove,
                    _ => Dur::Long(u.int_in_range(1u8..=20)?),
                };
                Op::Call {
                    kind: u.int_in_range(0u8..=3)?,
                    dur,
                }
            }
            14..=18 => Op::Adv(match u.int_in_range(0u8..=9)? {
                0..=3 => Adv::Ms(u.int_in_range(1u8..=30)?),
                4..=6 => Adv::Wait(u.int_in_range(-1i8..=2)?),
                7 | 8 => Adv::Window(u.int_in_range(-1i8..=2)?),
                _ => Adv::Long,
            }),
            19 => Op::ForceOpen,
            20 => Op::ForceClosed,
            _ => Op::Reset,
        };
        ops.push(op);
    }
    Ok(CbCase { cfg, ops })
}

pub fn decode_c10(u: &mut Unstructured) -> Result<CacheCase> {
    let policy = u.int_in_range(0u8..=2)?;
    let max_size = u.int_in_range(1usize..=4)?;
    let ttl = match u.int_in_range(0u8..=5)? {
        0 | 1 => None,
        5 => Some(100_000),
        _ => Some(u.int_in_range(20u64..=100)?),
    };
    let mode = u.int_in_range(0u8..=2)?;
    let nkeys = u.int_in_range(2u32..=7)?;
    let mut ops = vec![];
    while !u.is_empty() && ops.len() < 500 {
        let op = match u.int_in_range(0u8..=16)? {
            0..=11 => COp::Get {
                key: u.int_in_range(0u32..=6)? % nkeys,
                ok: u.int_in_range(0u8..=99)? < 85,
                lat: if u.int_in_range(0u8..=4)? < 3 {
                    0
                } else {
                    u.int_in_range(1u64..=30)?
                },
                via: u.int_in_range(0u8..=1)?,
            },
            12..=14 => COp::Adv(CAdv::Ms(u.int_in_range(1u64..=40)?)),
            _ => COp::Adv(CAdv::Ttl(u.int_in_range(-1i8..=1)?)),
        };
        ops.push(op);
    }
    Ok(CacheCase {
        policy,
        max_size,
        ttl,
        mode,
        ops,
        setter_order: 0,
        stress: None,
    })
}

pub fn decode_c14(u: &mut Unstructured) -> Result<BackoffCase> {
    let dur = |u: &mut Unstructured| -> Result<u64> {
        Ok(match u.int_in_range(0u8..=6)? {
            0 => 0,
            1 => 1,
            2 => u.int_in_range(1u64..=1_000)?,
            3 | 4 => u.int_in_range(1u64..=10_000)? * 1_000_000,
            5 => u.int_in_range(1u64..=1_000_000)? * 1_000,
            _ => u.arbitrary::<u64>()? % (10 * 86_400_000_000_000),
        })
    };
    let att = |u: &mut Unstructured| -> Result<u64> {
        Ok(match u.int_in_range(0u8..=9)? {
            0..=4 => u.int_in_range(0u64..=200)?,
            5..=7 => u.int_in_range(0u64..=10_000)?,
            8 => {
                let k = u.int_in_range(0u32..=63)?;
                let d = u.int_in_range(-1i64..=1)?;
                ((1u128 << k) as i128 + d as i128).max(0) as u64
            }
            _ => u.arbitrary::<u64>()?,
        })
    };
    let initial_ns = dur(u)?;
    let cap_ns = match u.int_in_range(0u8..=5)? {
        0 | 1 => None,
        2 => Some(0),
        3 => Some(u.int_in_range(1u64..=60_000)? * 1_000_000),
        4 => Some(dur(u)?),
        _ => Some(u.arbitrary::<u64>()?),
    };
    let a = att(u)?;
    let b = att(u)?;
    Ok(BackoffCase::Func {
        kind: u.int_in_range(0u8..=5)?,
        initial_ns,
        mult100: u.int_in_range(100u32..=1000)?,
        cap_ns,
        factor100: u.int_in_range(0u8..=100)?,
        a: a.min(b),
        b: a.max(b),
        cap_first: u.arbitrary::<bool>().unwrap_or(false),
    })
}

fn report_violation<C: serde::Serialize>(id: &str, case: &C, msg: &str) -> ! {
    let verif_dir = std::env::var("VERIF_DIR").unwrap_or_else(|_| "/verif".to_string());
    let body = serde_json::json!({
        "property": id,
        "found_by": "libFuzzer target",
        "message": msg,
        "case": serde_json::to_value(case).unwrap_or(serde_json::Value::Null),
    });
    let mut h = DefaultHasher::new();
    serde_json::to_string(case).unwrap_or_default().hash(&mut h);
    let dir = format!("{verif_dir}/replays/{id}");
    let _ = std::fs::create_dir_all(&dir);
    let path = format!("{dir}/fuzz-{:016x}.json", h.finish());
    let _ = std::fs::write(&path, serde_json::to_string_pretty(&body).unwrap());
    println!("violation: {msg}");
    println!("VIOLATION property={id} replay={path}");
    panic!("property {id} violated: {msg}");
}

/// One fuzz iteration. All state is per call (fresh service, fresh runtime, fresh log).
pub fn run(id: &str, data: &[u8]) {
    let mut u = Unstructured::new(data);
    match id {
        "C04" => {
            let Ok(case) = decode_c04(&mut u) else { return };
            let r = breaker_model::report_of(&case);
            if let Some(m) = r.violation {
                report_violation(id, &case, &m);
            }
        }
        "C10" => {
            let Ok(case) = decode_c10(&mut u) else { return };
            let r = cache::C10.run(&case);
            if let Some(m) = r.violation {
                report_violation(id, &case, &m);
            }
        }
        "C14" => {
            let Ok(case) = decode_c14(&mut u) else { return };
            let r = backoff::run_case(&case);
            if let Some(m) = r.violation {
                report_violation(id, &case, &m);
            }
        }
        _ => panic!("no fuzz decoder for {id}"),
    }
}
