#![no_main]
// Coverage-guided fuzz target for C10: bytes -> case (arbitrary::Unstructured) -> same interpreter and
// oracle as the proptest check. Any panic is a finding.
libfuzzer_sys::fuzz_target!(|data: &[u8]| {
    vcheck::fuzzdec::run("C10", data);
});
